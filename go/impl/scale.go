package main

// C09 harness: barcode.Scale / barcode.ScaleWithFill on sources produced by the
// real encoders of /repo (public API only) or by a hand-made barcode.Barcode
// ("raw": any dims, any Bounds().Min, with/without ColorScheme and CheckSum).
//
// Case lines (see lib/c09.py):
//   scsrc <srcspec>                              -> <srcdesc> | ERR
//   sc   <srcspec> <step>... | <srcdesc>         -> <srcdesc> => <res> ; <res> ...
//   scat <srcspec> <step>... @ <x,y>... | <srcdesc>
//                                                -> <srcdesc> => <hdr> <samples> ; ...
// The part after "|" is for the model side only (the model has no encoder: it
// receives the source's observables as data); this side rebuilds the source from
// <srcspec> and prints its own description, so a stale description shows up as a
// mismatch.
//
//   srcspec  <family>:<variant>:<content hex>      variant d=default scheme,
//            c=custom RGBA scheme (non-white background), 8=ColorScheme8,
//            i=inverted (white foreground)
//            raw:<dims>:<x0>:<y0>:<cs|->:<0|1 scheme>:<rows of 0/1 joined by />
//   step     <width>x<height>:<fill>   fill d = Scale (default fill), a/b/c = explicit
//            palette colours, 0/1/w = the source's background/foreground/white
//   desc     <kind> <dims> <x0>,<y0>-<x1>x<y1> <content hex> <checksum|-> <colour model>
//            <scheme: 10|-> <char of white> <rows>
//   pixel chars: 1 source foreground, 0 source background, w white, a/b/c fills,
//            o = a raw source's colour outside its bounds, ? anything else
//   res      ERR | BOTHNIL | BOTHSET | OK <desc>       (chain stops at the first non-OK)
//   hdr      desc without the rows

import (
	"fmt"
	"image"
	"image/color"
	"reflect"
	"strings"

	"github.com/boombuler/barcode"
	"github.com/boombuler/barcode/aztec"
	"github.com/boombuler/barcode/codabar"
	"github.com/boombuler/barcode/code128"
	"github.com/boombuler/barcode/code39"
	"github.com/boombuler/barcode/code93"
	"github.com/boombuler/barcode/datamatrix"
	"github.com/boombuler/barcode/ean"
	"github.com/boombuler/barcode/pdf417"
	"github.com/boombuler/barcode/qr"
	"github.com/boombuler/barcode/twooffive"
)

var (
	scFillA   = color.RGBA{250, 0, 0, 255}
	scFillB   = color.RGBA{0, 250, 0, 255}
	scFillC   = color.RGBA{0, 0, 250, 255}
	scOutside = color.RGBA{1, 2, 3, 255}
	scCustom  = barcode.ColorScheme{
		Model:      color.RGBAModel,
		Background: color.RGBA{200, 220, 240, 255},
		Foreground: color.RGBA{10, 20, 30, 255},
	}
	scInverted = barcode.ColorScheme{
		Model:      color.Gray16Model,
		Background: color.Black,
		Foreground: color.White,
	}
)

// ---- hand-made barcodes -------------------------------------------------
type scRaw struct {
	dims    byte
	rect    image.Rectangle
	rows    []string
	fg, bg  color.Color
	content string
}

func (r *scRaw) Metadata() barcode.Metadata { return barcode.Metadata{CodeKind: "raw kind", Dimensions: r.dims} }
func (r *scRaw) Content() string            { return r.content }
func (r *scRaw) ColorModel() color.Model    { return color.RGBAModel }
func (r *scRaw) Bounds() image.Rectangle    { return r.rect }
func (r *scRaw) At(x, y int) color.Color {
	if !(image.Point{x, y}.In(r.rect)) {
		return scOutside
	}
	if r.rows[y-r.rect.Min.Y][x-r.rect.Min.X] == '1' {
		return r.fg
	}
	return r.bg
}

type scRawCS struct {
	scRaw
	cs int
}

func (r *scRawCS) CheckSum() int { return r.cs }

type scRawCol struct{ scRaw }

func (r *scRawCol) ColorScheme() barcode.ColorScheme {
	return barcode.ColorScheme{Model: color.RGBAModel, Background: r.bg, Foreground: r.fg}
}

type scRawColCS struct {
	scRawCS
}

func (r *scRawColCS) ColorScheme() barcode.ColorScheme {
	return barcode.ColorScheme{Model: color.RGBAModel, Background: r.bg, Foreground: r.fg}
}

func scBuildRaw(p []string) (barcode.Barcode, error) {
	// raw:<dims>:<x0>:<y0>:<cs|->:<scheme>:<rows>
	dims, x0, y0 := atoi(p[1]), atoi(p[2]), atoi(p[3])
	rows := strings.Split(p[6], "/")
	base := scRaw{dims: byte(dims), rect: image.Rect(x0, y0, x0+len(rows[0]), y0+len(rows)), rows: rows,
		fg: scCustom.Foreground, bg: scCustom.Background, content: "raw content"}
	hasCS, hasCol := p[4] != "-", p[5] == "1"
	switch {
	case hasCS && hasCol:
		return &scRawColCS{scRawCS{base, atoi(p[4])}}, nil
	case hasCS:
		return &scRawCS{base, atoi(p[4])}, nil
	case hasCol:
		return &scRawCol{base}, nil
	}
	return &base, nil
}

func scScheme(v string) barcode.ColorScheme {
	switch v {
	case "c":
		return scCustom
	case "8":
		return barcode.ColorScheme8
	case "i":
		return scInverted
	}
	return barcode.ColorScheme16
}

func scBuild(spec string) (barcode.Barcode, error) {
	p := strings.Split(spec, ":")
	if p[0] == "raw" {
		return scBuildRaw(p)
	}
	content := string(unhex(p[2]))
	def := p[1] == "d"
	cs := scScheme(p[1])
	switch p[0] {
	case "ean":
		if def {
			return ean.Encode(content)
		}
		return ean.EncodeWithColor(content, cs)
	case "code128":
		if def {
			return code128.Encode(content)
		}
		return code128.EncodeWithColor(content, cs)
	case "code128nc":
		if def {
			return code128.EncodeWithoutChecksum(content)
		}
		return code128.EncodeWithoutChecksumWithColor(content, cs)
	case "code39":
		if def {
			return code39.Encode(content, true, false)
		}
		return code39.EncodeWithColor(content, true, false, cs)
	case "code93":
		if def {
			return code93.Encode(content, true, false)
		}
		return code93.EncodeWithColor(content, true, false, cs)
	case "codabar":
		if def {
			return codabar.Encode(content)
		}
		return codabar.EncodeWithColor(content, cs)
	case "2of5":
		if def {
			return twooffive.Encode(content, false)
		}
		return twooffive.EncodeWithColor(content, false, cs)
	case "2of5i":
		if def {
			return twooffive.Encode(content, true)
		}
		return twooffive.EncodeWithColor(content, true, cs)
	case "qr":
		if def {
			return qr.Encode(content, qr.M, qr.Auto)
		}
		return qr.EncodeWithColor(content, qr.M, qr.Auto, cs)
	case "dm":
		if def {
			return datamatrix.Encode(content)
		}
		return datamatrix.EncodeWithColor(content, cs)
	case "aztec":
		if def {
			return aztec.Encode([]byte(content), 33, 0)
		}
		return aztec.EncodeWithColor([]byte(content), 33, 0, cs)
	case "pdf417":
		if def {
			return pdf417.Encode(content, 1)
		}
		return pdf417.EncodeWithColor(content, 1, cs)
	}
	panic("unknown family " + p[0])
}

// ---- canonical printing -------------------------------------------------
type scPalette struct {
	fg, bg color.Color // of the ORIGINAL source
}

func scPaletteOf(bc barcode.Barcode) scPalette {
	if c, ok := bc.(barcode.BarcodeColor); ok {
		return scPalette{c.ColorScheme().Foreground, c.ColorScheme().Background}
	}
	if r, ok := bc.(*scRaw); ok {
		return scPalette{r.fg, r.bg}
	}
	if r, ok := bc.(*scRawCS); ok {
		return scPalette{r.fg, r.bg}
	}
	return scPalette{color.Black, color.White}
}

func (p scPalette) char(c color.Color) byte {
	switch {
	case c == p.fg:
		return '1'
	case c == p.bg:
		return '0'
	case c == color.White:
		return 'w'
	case c == color.Color(scFillA):
		return 'a'
	case c == color.Color(scFillB):
		return 'b'
	case c == color.Color(scFillC):
		return 'c'
	case c == color.Color(scOutside):
		return 'o'
	}
	return '?'
}

func (p scPalette) fill(tok string) (color.Color, bool) {
	switch tok {
	case "a":
		return scFillA, true
	case "b":
		return scFillB, true
	case "c":
		return scFillC, true
	case "0":
		return p.bg, true
	case "1":
		return p.fg, true
	case "w":
		return color.White, true
	case "d":
		return nil, false
	}
	panic("bad fill " + tok)
}

func scModelName(m color.Model) string {
	switch m {
	case color.Gray16Model:
		return "gray16"
	case color.GrayModel:
		return "gray"
	case color.RGBAModel:
		return "rgba"
	}
	return "other"
}

func scHeader(p scPalette, bc barcode.Barcode) string {
	md := bc.Metadata()
	b := bc.Bounds()
	cs := "-"
	if ics, ok := bc.(barcode.BarcodeIntCS); ok {
		cs = itoa(ics.CheckSum())
	}
	scheme := "-"
	if c, ok := bc.(barcode.BarcodeColor); ok {
		scheme = string([]byte{p.char(c.ColorScheme().Foreground), p.char(c.ColorScheme().Background)})
	}
	return fmt.Sprintf("%s %d %d,%d-%dx%d %s %s %s %s %c", strings.ReplaceAll(md.CodeKind, " ", "_"), md.Dimensions,
		b.Min.X, b.Min.Y, b.Max.X, b.Max.Y, tohex([]byte(bc.Content())), cs, scModelName(bc.ColorModel()),
		scheme, p.char(color.White))
}

func scRows(p scPalette, bc barcode.Barcode) string {
	b := bc.Bounds()
	var sb strings.Builder
	sb.Grow((b.Dx() + 1) * b.Dy())
	for y := b.Min.Y; y < b.Max.Y; y++ {
		if y > b.Min.Y {
			sb.WriteByte('/')
		}
		for x := b.Min.X; x < b.Max.X; x++ {
			sb.WriteByte(p.char(bc.At(x, y)))
		}
	}
	if sb.Len() == 0 {
		return "-"
	}
	return sb.String()
}

func scDesc(p scPalette, bc barcode.Barcode) string { return scHeader(p, bc) + " " + scRows(p, bc) }

func scIsNil(bc barcode.Barcode) bool { return bc == nil || reflect.ValueOf(bc).IsNil() }

// one scaling step; returns the status word and the new barcode
func scStep(p scPalette, bc barcode.Barcode, step string) (string, barcode.Barcode) {
	q := strings.Split(step, ":")
	wh := strings.Split(q[0], "x")
	width, height := atoi(wh[0]), atoi(wh[1])
	var res barcode.Barcode
	var err error
	if fill, explicit := p.fill(q[1]); explicit {
		res, err = barcode.ScaleWithFill(bc, width, height, fill)
	} else {
		res, err = barcode.Scale(bc, width, height)
	}
	switch {
	case scIsNil(res) && err == nil:
		return "BOTHNIL", nil
	case scIsNil(res):
		return "ERR", nil
	case err != nil:
		return "BOTHSET", nil
	}
	return "OK", res
}

func scSplit(args []string) (spec string, steps []string, coords []string) {
	spec = args[0]
	i := 1
	for ; i < len(args) && args[i] != "|" && args[i] != "@"; i++ {
		steps = append(steps, args[i])
	}
	if i < len(args) && args[i] == "@" {
		for i++; i < len(args) && args[i] != "|"; i++ {
			coords = append(coords, args[i])
		}
	}
	return
}

func init() {
	register("scsrc", func(args []string) string {
		bc, err := scBuild(args[0])
		if scIsNil(bc) || err != nil {
			return "ERR"
		}
		return scDesc(scPaletteOf(bc), bc)
	})

	register("sc", func(args []string) string {
		spec, steps, _ := scSplit(args)
		bc, err := scBuild(spec)
		if scIsNil(bc) || err != nil {
			return "ERR"
		}
		p := scPaletteOf(bc)
		out := []string{}
		cur := bc
		for _, st := range steps {
			status, next := scStep(p, cur, st)
			if status != "OK" {
				out = append(out, status)
				break
			}
			out = append(out, "OK "+scDesc(p, next))
			cur = next
		}
		return scDesc(p, bc) + " => " + strings.Join(out, " ; ")
	})

	// huge images: only At() at the requested coordinates, for every stage
	register("scat", func(args []string) string {
		spec, steps, coords := scSplit(args)
		bc, err := scBuild(spec)
		if scIsNil(bc) || err != nil {
			return "ERR"
		}
		p := scPaletteOf(bc)
		out := []string{}
		cur := bc
		for _, st := range steps {
			status, next := scStep(p, cur, st)
			if status != "OK" {
				out = append(out, status)
				break
			}
			sm := make([]byte, len(coords))
			for i, c := range coords {
				xy := strings.Split(c, ",")
				sm[i] = p.char(next.At(atoi(xy[0]), atoi(xy[1])))
			}
			sms := string(sm)
			if sms == "" {
				sms = "-"
			}
			out = append(out, "OK "+scHeader(p, next)+" "+sms)
			cur = next
		}
		return scDesc(p, bc) + " => " + strings.Join(out, " ; ")
	})
}
