package main

import (
	"strings"

	"github.com/boombuler/barcode/code128"
)

// runes of a byte string as the encoder sees them, "r1,r2,..." ("-" if none)
func runeList(rs []rune) string {
	if len(rs) == 0 {
		return "-"
	}
	p := make([]string, len(rs))
	for i, r := range rs {
		p[i] = itoa(int(r))
	}
	return strings.Join(p, ",")
}

func tf(b bool) string {
	if b {
		return "T"
	}
	return "F"
}

// c128 <cs 0|1> <hex content>   : Encode (1) / EncodeWithoutChecksum (0), describe format
// c128idx <hex content>          : VerifIndexList bytes as hex, NIL when nil
// c128c <cur> <hex content>      : shouldUseCTable(strToRunes(content), cur)
// c128a <cur> <hex content>      : shouldUseATable(strToRunes(content), cur)
// c128runes <hex content>        : strToRunes
func init() {
	register("c128", func(args []string) string {
		s := string(unhex(args[1]))
		if args[0] == "1" {
			return describe(code128.Encode(s))
		}
		return describe(code128.EncodeWithoutChecksum(s))
	})
	register("c128idx", func(args []string) string {
		r := code128.VerifIndexList(string(unhex(args[0])))
		if r == nil {
			return "NIL"
		}
		return tohex(r)
	})
	register("c128c", func(args []string) string {
		return tf(code128.VerifShouldUseCTable(code128.VerifStrToRunes(string(unhex(args[1]))), byte(atoi(args[0]))))
	})
	register("c128a", func(args []string) string {
		return tf(code128.VerifShouldUseATable(code128.VerifStrToRunes(string(unhex(args[1]))), byte(atoi(args[0]))))
	})
	register("c128runes", func(args []string) string {
		return runeList(code128.VerifStrToRunes(string(unhex(args[0]))))
	})
}
