package main

import (
	"strconv"
	"strings"

	"github.com/boombuler/barcode"
)

// cs <w1xh1,w2xh2,...|-> <encoder args...> : encode, then scale repeatedly; print the short
// description of the source, then CheckSum() of the source and of every stage
// ("NOCS" = not a BarcodeIntCS, "E" = that Scale call failed; the chain stops there)
func init() {
	register("cs", func(a []string) string { return csChain(a, nil) })
	// csc <scheme> <sizes> <encoder args...> : the same through the WithColor entry point
	register("csc", func(a []string) string {
		sch, ok := testSchemes[a[0]]
		if !ok {
			panic("unknown scheme")
		}
		return csChain(a[1:], &sch)
	})
}

func csChain(a []string, scheme *barcode.ColorScheme) string {
	{
		bc, err := encodeAny(a[1:], scheme)
		d := describe(bc, err)
		if err != nil || bc == nil {
			return d
		}
		show := func(b barcode.Barcode) string {
			if ics, ok := b.(barcode.BarcodeIntCS); ok {
				return strconv.Itoa(ics.CheckSum())
			}
			return "NOCS"
		}
		out := []string{show(bc)}
		if a[0] != "-" {
			cur := bc
			for _, sz := range strings.Split(a[0], ",") {
				p := strings.Split(sz, "x")
				nx, err := barcode.Scale(cur, atoi(p[0]), atoi(p[1]))
				if err != nil {
					out = append(out, "E")
					break
				}
				out = append(out, show(nx))
				cur = nx
			}
		}
		return d + " | " + strings.Join(out, " ")
	}
}
