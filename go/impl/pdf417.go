package main

import (
	"image/color"
	"math"
	"strings"

	"github.com/boombuler/barcode"
	"github.com/boombuler/barcode/pdf417"
)

func pdfInts(is []int) string {
	if len(is) == 0 {
		return "-"
	}
	p := make([]string, len(is))
	for i, v := range is {
		p[i] = itoa(v)
	}
	return strings.Join(p, ",")
}

func pdfParseInts(s string) []int {
	if s == "-" {
		return []int{}
	}
	f := strings.Split(s, ",")
	r := make([]int, len(f))
	for i, x := range f {
		r[i] = atoi(x)
	}
	return r
}

// colour schemes for the WithColor entry point (C11): the pattern must not depend on them
func pdfScheme(id int) barcode.ColorScheme {
	switch id {
	case 1:
		return barcode.ColorScheme8
	case 2:
		return barcode.ColorScheme24
	case 3:
		return barcode.ColorScheme{Model: color.RGBAModel, Background: color.RGBA{10, 200, 30, 255}, Foreground: color.RGBA{250, 0, 128, 255}}
	case 4:
		return barcode.ColorScheme{Model: color.CMYKModel, Background: color.CMYK{1, 2, 3, 4}, Foreground: color.CMYK{200, 100, 50, 25}}
	case 5:
		return barcode.ColorScheme{Model: color.NRGBAModel, Background: color.NRGBA{0, 0, 0, 0}, Foreground: color.NRGBA{255, 255, 255, 128}}
	case 6:
		return barcode.ColorScheme{Model: color.Gray16Model, Background: color.Gray16{Y: 7}, Foreground: color.Gray16{Y: 65000}}
	}
	return barcode.ColorScheme16
}

// pdf <level 0..255> <hex data> <cols (ignored: the model's oracle)> [scheme id]
//        -> describe format (Encode for scheme 0 / absent, EncodeWithColor otherwise);
//           with a scheme also checks ColorScheme()/ColorModel() report the scheme given
// pdfdims <level> <hex data>  -> column count of the symbol Encode returns (0 on error), from its width
// pdfhl <hex data>            -> highlevelEncode codewords
// pdftext <sub 0..3> <hex>    -> encodeText: "<sub'> <codewords>"
// pdfrow <rows> <cols> <level>-> "left:right" for every row number 0..rows-1
// pdfnrows <m> <k> <c>        -> calculateNumberOfRows
// pdfec <level> <codewords>   -> Compute
// pdfdata <level> <cols> <cw> -> encodeData
// pdfdim <dataWords> <eccWords> -> "cols rows" chosen by calcDimensions (hook VerifCalcDimensions)
// pdfauto <level> <hex data>  -> describe format of Encode (the model answers with pdf_encode_auto)
// pdfdimfloat                 -> float64 vs exact-rational evaluation of calcDimensions' comparison, see pdfDimFloat
func init() {
	register("pdfdim", func(args []string) string {
		c, r := pdf417.VerifCalcDimensions(atoi(args[0]), atoi(args[1]))
		return itoa(c) + " " + itoa(r)
	})
	register("pdfauto", func(args []string) string {
		return describe(pdf417.Encode(string(unhex(args[1])), byte(atoi(args[0]))))
	})
	register("pdfdimfloat", func(args []string) string { return pdfDimFloat() })
	register("pdf", func(args []string) string {
		level := byte(atoi(args[0]))
		data := string(unhex(args[1]))
		if len(args) < 4 || args[3] == "0" {
			return describe(pdf417.Encode(data, level))
		}
		sch := pdfScheme(atoi(args[3]))
		bc, err := pdf417.EncodeWithColor(data, level, sch)
		res := describe(bc, err)
		if err == nil && bc != nil {
			c, ok := bc.(barcode.BarcodeColor)
			if !ok || c.ColorScheme().Foreground != sch.Foreground || c.ColorScheme().Background != sch.Background ||
				bc.ColorModel() != sch.Model {
				return "BADSCHEME " + res
			}
		}
		return res
	})
	register("pdfdims", func(args []string) string {
		bc, err := pdf417.Encode(string(unhex(args[1])), byte(atoi(args[0])))
		if err != nil || bc == nil {
			return "0"
		}
		w := bc.Bounds().Dx()
		return itoa((w-1)/17 - 4)
	})
	register("pdfhl", func(args []string) string {
		cw, err := pdf417.VerifHighLevel(string(unhex(args[0])))
		if err != nil {
			return "ERR"
		}
		return pdfInts(cw)
	})
	register("pdftext", func(args []string) string {
		sm, cw := pdf417.VerifEncodeText([]rune(string(unhex(args[1]))), atoi(args[0]))
		return itoa(sm) + " " + pdfInts(cw)
	})
	register("pdfrow", func(args []string) string {
		rows, cols, level := atoi(args[0]), atoi(args[1]), byte(atoi(args[2]))
		p := make([]string, 0, rows)
		for r := 0; r < rows; r++ {
			p = append(p, itoa(pdf417.VerifLeftCodeWord(r, rows, cols, level))+":"+itoa(pdf417.VerifRightCodeWord(r, rows, cols, level)))
		}
		return strings.Join(p, " ")
	})
	register("pdfnrows", func(args []string) string {
		return itoa(pdf417.VerifCalculateNumberOfRows(atoi(args[0]), atoi(args[1]), atoi(args[2])))
	})
	register("pdfec", func(args []string) string {
		return pdfInts(pdf417.VerifCompute(byte(atoi(args[0])), pdfParseInts(args[1])))
	})
	register("pdfdata", func(args []string) string {
		cw, err := pdf417.VerifEncodeData(pdfParseInts(args[2]), atoi(args[1]), byte(atoi(args[0])))
		if err != nil {
			return "ERR"
		}
		return pdfInts(cw)
	})
}

// pdfDimFloat evaluates the float64 expression of calcDimensions
//
//	math.Abs(newRatio-preferred_ratio) > math.Abs(ratio-preferred_ratio)      (preferred_ratio = 3.0)
//
// for newRatio = float64(17*c1+69)/float64(r1*2) over all shapes c1,r1 in 2..30 and ratio ranging
// over the values the variable can hold: float64(17*c2+69)/float64(r2*2) for all c2,r2 in 2..30,
// +Inf (= float64(69)/float64(0), stored by the first accepted candidate) and the initial 0.0; and
// compares it with the exact rational answer |n1/d1-3| > |n2/d2-3|  <=>  |n1-3*d1|*d2 > |n2-3*d2|*d1
// (integers; +Inf: false).  Also checks float64(69)/float64(0) = +Inf.
// Output: "pairs=<n> agree=<k> ties=<exact ties with different ratios> inf=<T|F> diff=<c1,r1,c2,r2,float,exact;...|->"
// where c2,r2 = 0,0 stands for +Inf and -1,-1 for the initial 0.0.
func pdfDimFloat() string {
	const preferred = 3.0
	type rat struct{ c, r, n, d int }
	var olds []rat
	for c := 2; c <= 30; c++ {
		for r := 2; r <= 30; r++ {
			olds = append(olds, rat{c, r, 17*c + 69, r * 2})
		}
	}
	news := append([]rat{}, olds...)
	zeroRows, zeroCols := 0, 0
	olds = append(olds, rat{0, 0, 17*zeroCols + 69, zeroRows * 2}) // +Inf
	olds = append(olds, rat{-1, -1, 0, 1})                          // the initial 0.0
	abs := func(x int) int {
		if x < 0 {
			return -x
		}
		return x
	}
	infOK := math.IsInf(float64(17*zeroCols+69)/float64(zeroRows*2), 1)
	pairs, agree, ties := 0, 0, 0
	var diff []string
	for _, a := range news {
		newRatio := float64(a.n) / float64(a.d)
		for _, b := range olds {
			ratio := float64(b.n) / float64(b.d)
			fl := math.Abs(newRatio-preferred) > math.Abs(ratio-preferred)
			var ex bool
			if b.d == 0 {
				ex = false
			} else {
				l, r := abs(a.n-3*a.d)*b.d, abs(b.n-3*b.d)*a.d
				ex = l > r
				if l == r && a.n*b.d != b.n*a.d {
					ties++
				}
			}
			pairs++
			if fl == ex {
				agree++
			} else if len(diff) < 40 {
				diff = append(diff, itoa(a.c)+","+itoa(a.r)+","+itoa(b.c)+","+itoa(b.r)+","+map[bool]string{true: "T", false: "F"}[fl]+","+map[bool]string{true: "T", false: "F"}[ex])
			}
		}
	}
	d := "-"
	if len(diff) > 0 {
		d = strings.Join(diff, ";")
	}
	return "pairs=" + itoa(pairs) + " agree=" + itoa(agree) + " ties=" + itoa(ties) + " inf=" + map[bool]string{true: "T", false: "F"}[infOK] + " diff=" + d
}
