// Command impl runs the real boombuler/barcode implementation (from /repo, via
// the replace directive) on case lines read from stdin and prints one
// canonical result line per case.  It is the implementation side of the
// correspondence check; the extracted Coq model prints the same format.
package main

import (
	"bufio"
	"flag"
	"fmt"
	"os"
	"runtime"
	"strconv"
	"strings"
	"sync"
	"time"
)

type handler func(args []string) string

var handlers = map[string]handler{}

func register(tag string, h handler) { handlers[tag] = h }

func run1(h handler, args []string) (res string) {
	defer func() {
		if r := recover(); r != nil {
			res = "PANIC"
		}
	}()
	return h(args)
}

// caseTimeout bounds one case (VERIF_CASE_TIMEOUT seconds, default 90): a library call that does not
// return is reported as HANG and the remaining cases still run (the stuck goroutine is abandoned).
var caseTimeout = func() time.Duration {
	if s := os.Getenv("VERIF_CASE_TIMEOUT"); s != "" {
		if n, err := strconv.Atoi(s); err == nil && n > 0 {
			return time.Duration(n) * time.Second
		}
	}
	return 90 * time.Second
}()

func run(h handler, args []string) string {
	done := make(chan string, 1)
	go func() { done <- run1(h, args) }()
	t := time.NewTimer(caseTimeout)
	defer t.Stop()
	select {
	case r := <-done:
		return r
	case <-t.C:
		return "HANG(no result within " + caseTimeout.String() + ")"
	}
}

// -par G: handle all input lines with G goroutines concurrently (results printed in input
// order), then print "GOROUTINES <before> <after>": the number of goroutines before the
// workers started and after they all returned (the library must leave none running).
// -procs P sets GOMAXPROCS.
func main() {
	par := flag.Int("par", 0, "number of concurrent worker goroutines (0 = sequential)")
	procs := flag.Int("procs", 0, "GOMAXPROCS")
	flag.Parse()
	if *procs > 0 {
		runtime.GOMAXPROCS(*procs)
	}
	in := bufio.NewReaderSize(os.Stdin, 1<<20)
	out := bufio.NewWriterSize(os.Stdout, 1<<20)
	defer out.Flush()
	handle := func(line string) string {
		f := strings.Split(line, " ")
		h, ok := handlers[f[0]]
		if !ok {
			return "UNKNOWN-TAG " + f[0]
		}
		return run(h, f[1:])
	}
	if *par > 0 {
		var lines []string
		for {
			line, err := in.ReadString('\n')
			line = strings.TrimRight(line, "\n")
			if line != "" {
				lines = append(lines, line)
			}
			if err != nil {
				break
			}
		}
		before := runtime.NumGoroutine()
		results := make([]string, len(lines))
		var wg sync.WaitGroup
		start := make(chan struct{})
		for g := 0; g < *par; g++ {
			wg.Add(1)
			go func(g int) {
				defer wg.Done()
				<-start // all workers start together: the very first library calls race each other
				for i := g; i < len(lines); i += *par {
					results[i] = handle(lines[i])
				}
			}(g)
		}
		close(start)
		wg.Wait()
		after := runtime.NumGoroutine()
		for w := 0; after > before && w < 200; w++ {
			time.Sleep(10 * time.Millisecond)
			after = runtime.NumGoroutine()
		}
		for _, r := range results {
			fmt.Fprintln(out, r)
		}
		fmt.Fprintf(out, "GOROUTINES %d %d\n", before, after)
		return
	}
	for {
		line, err := in.ReadString('\n')
		line = strings.TrimRight(line, "\n")
		if line != "" {
			fmt.Fprintln(out, handle(line))
			out.Flush()
		}
		if err != nil {
			break
		}
	}
}
