// Command impl runs the real boombuler/barcode implementation (from /repo, via
// the replace directive) on case lines read from stdin and prints one
// canonical result line per case.  It is the implementation side of the
// correspondence check; the extracted Coq model prints the same format.
package main

import (
	"bufio"
	"fmt"
	"os"
	"strings"
)

type handler func(args []string) string

var handlers = map[string]handler{}

func register(tag string, h handler) { handlers[tag] = h }

func run(h handler, args []string) (res string) {
	defer func() {
		if r := recover(); r != nil {
			res = "PANIC"
		}
	}()
	return h(args)
}

func main() {
	in := bufio.NewReaderSize(os.Stdin, 1<<20)
	out := bufio.NewWriterSize(os.Stdout, 1<<20)
	defer out.Flush()
	for {
		line, err := in.ReadString('\n')
		line = strings.TrimRight(line, "\n")
		if line != "" {
			f := strings.Split(line, " ")
			h, ok := handlers[f[0]]
			if !ok {
				fmt.Fprintf(out, "UNKNOWN-TAG %s\n", f[0])
			} else {
				fmt.Fprintln(out, run(h, f[1:]))
			}
		}
		if err != nil {
			break
		}
	}
}
