package main

import (
	"github.com/boombuler/barcode/code93"
)

// c93 <cs 0|1> <full 0|1> <hex content>     -> describe(code93.Encode(...))
// c93ck <maxWeight> <hex content>           -> the rune getChecksum(content, maxWeight) (decimal)
// c93prep <hex content>                     -> OK <hex of prepare(content)> | ERR
func init() {
	register("c93", func(args []string) string {
		return describe(code93.Encode(string(unhex(args[2])), args[0] == "1", args[1] == "1"))
	})
	register("c93ck", func(args []string) string {
		return itoa(int(code93.VerifGetChecksum(string(unhex(args[1])), atoi(args[0]))))
	})
	register("c93prep", func(args []string) string {
		s, err := code93.VerifPrepare(string(unhex(args[0])))
		if err != nil {
			return "ERR"
		}
		return "OK " + tohex([]byte(s))
	})
}
