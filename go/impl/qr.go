package main

import (
	"image/color"
	"strings"

	"github.com/boombuler/barcode"
	"github.com/boombuler/barcode/qr"
)

func rowsString(m [][]bool) string {
	var sb strings.Builder
	for y, r := range m {
		if y > 0 {
			sb.WriteByte('/')
		}
		for _, b := range r {
			if b {
				sb.WriteByte('1')
			} else {
				sb.WriteByte('0')
			}
		}
	}
	return sb.String()
}

var qrSchemes = []barcode.ColorScheme{
	barcode.ColorScheme16,
	barcode.ColorScheme8,
	barcode.ColorScheme24,
	barcode.ColorScheme32,
	{Model: color.CMYKModel, Background: color.CMYK{C: 10, M: 200, Y: 30, K: 0}, Foreground: color.CMYK{C: 0, M: 0, Y: 255, K: 40}},
	{Model: color.NRGBAModel, Background: color.NRGBA{R: 1, G: 2, B: 3, A: 4}, Foreground: color.NRGBA{R: 250, G: 128, B: 0, A: 200}},
}

func init() {
	// qr <level> <mode> <content hex> : every observable of qr.Encode
	register("qr", func(args []string) string {
		return describe(qr.Encode(string(unhex(args[2])), qr.ErrorCorrectionLevel(atoi(args[0])), qr.Encoding(atoi(args[1]))))
	})
	// qrc <scheme index> <level> <mode> <content hex> : qr.EncodeWithColor; the result line is
	// that of qr plus the index of the scheme ColorScheme()/ColorModel() report (-1: another one)
	register("qrc", func(args []string) string {
		sc := qrSchemes[atoi(args[0])]
		bc, err := qr.EncodeWithColor(string(unhex(args[3])), qr.ErrorCorrectionLevel(atoi(args[1])), qr.Encoding(atoi(args[2])), sc)
		d := describe(bc, err)
		if bc == nil || err != nil {
			return d
		}
		rep := "-1"
		if c, ok := bc.(barcode.BarcodeColor); ok && c.ColorScheme() == sc && bc.ColorModel() == sc.Model {
			rep = args[0]
		}
		return d + " scheme=" + rep
	})
	// qrbits <level> <mode> <content hex> : bit stream and table row before block splitting
	register("qrbits", func(args []string) string {
		bits, v, l, err := qr.VerifBits(string(unhex(args[2])), qr.ErrorCorrectionLevel(atoi(args[0])), qr.Encoding(atoi(args[1])))
		if err != nil {
			return "ERR"
		}
		return "OK " + itoa(v) + " " + itoa(l) + " " + rowsString([][]bool{bits})
	})
	// qrfun <version> : occupancy matrix and values of the function modules (no format information)
	register("qrfun", func(args []string) string {
		o, v := qr.VerifFunctionModules(atoi(args[0]), 0, -1)
		return rowsString(o) + " " + rowsString(v)
	})
	// qrfmt <version> <level> <mask> : function module values with the format information drawn
	register("qrfmt", func(args []string) string {
		_, v := qr.VerifFunctionModules(atoi(args[0]), atoi(args[1]), atoi(args[2]))
		return rowsString(v)
	})
	// qrorder <version> : placement order of the data modules
	register("qrorder", func(args []string) string {
		var sb strings.Builder
		for i, p := range qr.VerifModuleOrder(atoi(args[0])) {
			if i > 0 {
				sb.WriteByte(';')
			}
			sb.WriteString(itoa(p.X))
			sb.WriteByte(',')
			sb.WriteString(itoa(p.Y))
		}
		return sb.String()
	})
	// qrmask <mask> <n> : setMasked over x,y < n for val=false and val=true
	register("qrmask", func(args []string) string {
		mask, n := atoi(args[0]), atoi(args[1])
		res := make([]string, 2)
		for vi, val := range []bool{false, true} {
			m := make([][]bool, n)
			for y := 0; y < n; y++ {
				m[y] = make([]bool, n)
				for x := 0; x < n; x++ {
					r, ok := qr.VerifSetMasked(x, y, val, mask)
					if !ok {
						return "BADCALL"
					}
					m[y][x] = r
				}
			}
			res[vi] = rowsString(m)
		}
		return res[0] + " " + res[1]
	})
	// qrblocks <version> <level> <data hex> : splitToBlocks + interleave
	register("qrblocks", func(args []string) string {
		il, bd, be, ok := qr.VerifBlocks(unhex(args[2]), atoi(args[0]), atoi(args[1]))
		if !ok {
			return "NOROW"
		}
		parts := make([]string, len(bd))
		for i := range bd {
			parts[i] = tohex(bd[i]) + ":" + tohex(be[i])
		}
		return tohex(il) + " " + strings.Join(parts, ",")
	})
	// qrecc <ecc count> <data hex> : calcECC
	register("qrecc", func(args []string) string {
		return tohex(qr.VerifECC(unhex(args[1]), atoi(args[0])))
	})
	// qralign <version> : alignmentPatternPlacements
	register("qralign", func(args []string) string {
		p := qr.VerifAlignment(atoi(args[0]))
		s := make([]string, len(p))
		for i, v := range p {
			s[i] = itoa(v)
		}
		return "[" + strings.Join(s, ",") + "]"
	})
	// qrccb <version> <mode indicator> : charCountBits
	register("qrccb", func(args []string) string {
		return itoa(qr.VerifCharCountBits(atoi(args[0]), atoi(args[1])))
	})
	// qrtdb <version> <level> : totalDataBytes of the table row (-1: no row)
	register("qrtdb", func(args []string) string {
		return itoa(qr.VerifTotalDataBytes(atoi(args[0]), atoi(args[1])))
	})
	// qrrender <version> <level> <codewords hex> : render of given interleaved codewords
	register("qrrender", func(args []string) string {
		m, ok := qr.VerifRender(unhex(args[2]), atoi(args[0]), atoi(args[1]))
		if !ok {
			return "NOROW"
		}
		return rowsString(m)
	})
}
