package main

import (
	"fmt"
	"strings"

	"github.com/boombuler/barcode"
	"github.com/boombuler/barcode/ean"
)

// bits01 -> hex, padded with 0 modules to a multiple of four, MSB first
func packBits(s string) string {
	var sb strings.Builder
	for i := 0; i < len(s); i += 4 {
		v := 0
		for j := 0; j < 4; j++ {
			v <<= 1
			if i+j < len(s) && s[i+j] == '1' {
				v |= 1
			}
		}
		sb.WriteByte("0123456789abcdef"[v])
	}
	return sb.String()
}

// compact record of one encode result, used by the sweep handlers:
//   <kind>,<content ascii>,<checksum>,<width>,<packed bits>   |  ERR | PANIC | BOTHNIL | BOTHSET
func eanRecord(code string) (rec string) {
	defer func() {
		if r := recover(); r != nil {
			rec = "PANIC"
		}
	}()
	bc, err := ean.Encode(code)
	d := describe(bc, err)
	if !strings.HasPrefix(d, "OK ") {
		return d
	}
	f := strings.Split(d, " ")
	// OK kind dims bounds contenthex checksum rows
	return f[1] + "," + string(unhex(f[4])) + "," + f[5] + "," + f[3] + "," + packBits(f[6])
}

func init() {
	// ean <content hex>
	register("ean", func(args []string) string {
		bc, err := ean.Encode(string(unhex(args[0])))
		var b barcode.Barcode
		if bc != nil {
			b = bc
		}
		return describe(b, err)
	})
	// ean7 <start> <count> / ean12 <prefix5> <start> <count>: all zero-padded 7-digit
	// numbers start..start+count-1 (ean12: 5-digit prefix + 7-digit number), records joined by ';'
	register("ean7", func(args []string) string {
		start, count := atoi(args[0]), atoi(args[1])
		recs := make([]string, 0, count)
		for i := start; i < start+count; i++ {
			recs = append(recs, eanRecord(fmt.Sprintf("%07d", i)))
		}
		return strings.Join(recs, ";")
	})
	register("ean12", func(args []string) string {
		start, count := atoi(args[1]), atoi(args[2])
		recs := make([]string, 0, count)
		for i := start; i < start+count; i++ {
			recs = append(recs, eanRecord(fmt.Sprintf("%s%07d", args[0], i)))
		}
		return strings.Join(recs, ";")
	})
	// ean8p <start> <count>: for every 7-digit prefix the last digits d for which the
	// 8-digit string prefix+d is accepted ('x' appended if content/checksum/kind of an accepted
	// one is not the input / d / EAN 8), joined by ';'
	register("ean8p", func(args []string) string {
		start, count := atoi(args[0]), atoi(args[1])
		recs := make([]string, 0, count)
		for i := start; i < start+count; i++ {
			var sb strings.Builder
			for d := 0; d < 10; d++ {
				code := fmt.Sprintf("%07d%d", i, d)
				r := eanRecord(code)
				if r == "ERR" {
					continue
				}
				sb.WriteByte(byte('0' + d))
				if !strings.HasPrefix(r, fmt.Sprintf("EAN_8,%s,%d,0,0-67x1,", code, d)) {
					sb.WriteByte('x')
				}
			}
			if sb.Len() == 0 {
				sb.WriteByte('-')
			}
			recs = append(recs, sb.String())
		}
		return strings.Join(recs, ";")
	})
}
