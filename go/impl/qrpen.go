//go:build verif_penalty

package main

import (
	"strings"

	"github.com/boombuler/barcode/qr"
)

// Informational only (property C01 leaves the mask choice free): the values of the four penalty
// rules of render's mask selection, compared with coq/model/QRMPenalty.v by lib/c01.py.
// Kept in its own file: it needs the hook qr.VerifPenalties and nothing else does.
func init() {
	// qrpen <rows> : calcPenaltyRule1..4 of the given square matrix and their sum
	register("qrpen", func(args []string) string {
		lines := strings.Split(args[0], "/")
		m := make([][]bool, len(lines))
		for y, l := range lines {
			if len(l) != len(lines) {
				return "BADSHAPE"
			}
			m[y] = make([]bool, len(l))
			for x := range l {
				m[y][x] = l[x] == '1'
			}
		}
		r := qr.VerifPenalties(m)
		return itoa(int(r[0])) + " " + itoa(int(r[1])) + " " + itoa(int(r[2])) + " " + itoa(int(r[3])) + " " + itoa(int(r[0]+r[1]+r[2]+r[3]))
	})
}
