package main

import (
	"encoding/hex"
	"fmt"
	"image/color"
	"reflect"
	"strconv"
	"strings"

	"github.com/boombuler/barcode"
)

func atoi(s string) int {
	v, err := strconv.ParseInt(s, 10, 64)
	if err != nil {
		panic("bad int " + s)
	}
	return int(v)
}

// hex string, "-" for empty
func unhex(s string) []byte {
	if s == "-" {
		return []byte{}
	}
	b, err := hex.DecodeString(s)
	if err != nil {
		panic("bad hex " + s)
	}
	return b
}

func tohex(b []byte) string {
	if len(b) == 0 {
		return "-"
	}
	return hex.EncodeToString(b)
}

func itoa(i int) string { return strconv.Itoa(i) }

// describe prints every observable of an encode result in canonical form:
//   ERR                      (nil barcode, non-nil error)
//   BOTHNIL / BOTHSET        (contract violation)
//   OK <kind> <dims> <w>x<h> <content hex> <checksum|-> <rows of 0/1 joined by />
// a pixel that is neither the scheme's foreground nor its background prints '?'.
func describe(bc barcode.Barcode, err error) string {
	if bc == nil || reflect.ValueOf(bc).IsNil() {
		if err == nil {
			return "BOTHNIL"
		}
		return "ERR"
	}
	if err != nil {
		return "BOTHSET"
	}
	return describeBC(bc)
}

func describeBC(bc barcode.Barcode) string {
	md := bc.Metadata()
	b := bc.Bounds()
	cs := "-"
	if ics, ok := bc.(barcode.BarcodeIntCS); ok {
		cs = itoa(ics.CheckSum())
	}
	var fg, bg color.Color = color.Black, color.White
	if c, ok := bc.(barcode.BarcodeColor); ok {
		fg, bg = c.ColorScheme().Foreground, c.ColorScheme().Background
	}
	var sb strings.Builder
	for y := b.Min.Y; y < b.Max.Y; y++ {
		if y > b.Min.Y {
			sb.WriteByte('/')
		}
		for x := b.Min.X; x < b.Max.X; x++ {
			c := bc.At(x, y)
			switch {
			case c == fg:
				sb.WriteByte('1')
			case c == bg:
				sb.WriteByte('0')
			default:
				sb.WriteByte('?')
			}
		}
	}
	return fmt.Sprintf("OK %s %d %d,%d-%dx%d %s %s %s", strings.ReplaceAll(md.CodeKind, " ", "_"), md.Dimensions,
		b.Min.X, b.Min.Y, b.Max.X, b.Max.Y, tohex([]byte(bc.Content())), cs, sb.String())
}
