package main

import (
	"encoding/hex"
	"strconv"
)

func atoi(s string) int {
	v, err := strconv.ParseInt(s, 10, 64)
	if err != nil {
		panic("bad int " + s)
	}
	return int(v)
}

// hex string, "-" for empty
func unhex(s string) []byte {
	if s == "-" {
		return []byte{}
	}
	b, err := hex.DecodeString(s)
	if err != nil {
		panic("bad hex " + s)
	}
	return b
}

func tohex(b []byte) string {
	if len(b) == 0 {
		return "-"
	}
	return hex.EncodeToString(b)
}

func itoa(i int) string { return strconv.Itoa(i) }
