package main

import (
	"fmt"
	"strings"

	"github.com/boombuler/barcode"
	"github.com/boombuler/barcode/twooffive"
)

func tofCS(content string) (res string) {
	defer func() {
		if r := recover(); r != nil {
			res = "PANIC"
		}
	}()
	s, err := twooffive.AddCheckSum(content)
	if err != nil {
		if s != "" {
			return "BOTHSET"
		}
		return "ERR"
	}
	return "OK " + tohex([]byte(s))
}

func init() {
	// tof <0|1 interleaved> <content hex>
	register("tof", func(args []string) string {
		return describe(twooffive.Encode(string(unhex(args[1])), args[0] == "1"))
	})
	// tofcs <content hex>
	register("tofcs", func(args []string) string {
		return tofCS(string(unhex(args[0])))
	})
	// tofx <0|1> <len> <start> <count>: zero-padded decimal strings of that length
	register("tofx", func(args []string) string {
		il, n, start, count := args[0] == "1", atoi(args[1]), atoi(args[2]), atoi(args[3])
		recs := make([]string, 0, count)
		for i := start; i < start+count; i++ {
			s := fmt.Sprintf("%0*d", n, i)
			recs = append(recs, c08Record(func() (barcode.Barcode, error) { return twooffive.Encode(s, il) }))
		}
		return strings.Join(recs, ";")
	})
	// tofcsx <len> <start> <count>
	register("tofcsx", func(args []string) string {
		n, start, count := atoi(args[0]), atoi(args[1]), atoi(args[2])
		recs := make([]string, 0, count)
		for i := start; i < start+count; i++ {
			recs = append(recs, strings.ReplaceAll(tofCS(fmt.Sprintf("%0*d", n, i)), " ", ","))
		}
		return strings.Join(recs, ";")
	})
}
