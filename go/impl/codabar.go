package main

import (
	"strings"

	"github.com/boombuler/barcode"
	"github.com/boombuler/barcode/codabar"
)

// bits01 -> hex, padded with 0 modules to a multiple of four, MSB first
func c08PackBits(s string) string {
	var sb strings.Builder
	for i := 0; i < len(s); i += 4 {
		v := 0
		for j := 0; j < 4; j++ {
			v <<= 1
			if i+j < len(s) && s[i+j] == '1' {
				v |= 1
			}
		}
		sb.WriteByte("0123456789abcdef"[v])
	}
	return sb.String()
}

// compact record of one encode result for the sweep handlers:
//   <kind>,<content hex>,<checksum>,<bounds>,<packed bits>   |  ERR | PANIC | BOTHNIL | BOTHSET
func c08Record(f func() (barcode.Barcode, error)) (rec string) {
	defer func() {
		if r := recover(); r != nil {
			rec = "PANIC"
		}
	}()
	bc, err := f()
	d := describe(bc, err)
	if !strings.HasPrefix(d, "OK ") {
		return d
	}
	t := strings.Split(d, " ")
	return t[1] + "," + t[4] + "," + t[5] + "," + t[3] + "," + c08PackBits(t[6])
}

const cbAlphabet = "0123456789-$:/.+ABCD"

// the idx-th string of the given length over cbAlphabet (base 20, most significant first)
func cbString(length, idx int) string {
	b := make([]byte, length)
	for i := length - 1; i >= 0; i-- {
		b[i] = cbAlphabet[idx%20]
		idx /= 20
	}
	return string(b)
}

func init() {
	// codabar <content hex>
	register("codabar", func(args []string) string {
		return describe(codabar.Encode(string(unhex(args[0]))))
	})
	// cbx <len> <start> <count>: all strings number start..start+count-1 of that length
	register("cbx", func(args []string) string {
		n, start, count := atoi(args[0]), atoi(args[1]), atoi(args[2])
		recs := make([]string, 0, count)
		for i := start; i < start+count; i++ {
			s := cbString(n, i)
			recs = append(recs, c08Record(func() (barcode.Barcode, error) { return codabar.Encode(s) }))
		}
		return strings.Join(recs, ";")
	})
}
