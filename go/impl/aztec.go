package main

import (
	"strings"

	"github.com/boombuler/barcode/aztec"
)

func bitsStr(bs []bool) string {
	if len(bs) == 0 {
		return "-"
	}
	var sb strings.Builder
	for _, b := range bs {
		if b {
			sb.WriteByte('1')
		} else {
			sb.WriteByte('0')
		}
	}
	return sb.String()
}

func strBits(s string) []bool {
	if s == "-" {
		return nil
	}
	bs := make([]bool, len(s))
	for i := range s {
		bs[i] = s[i] == '1'
	}
	return bs
}

// az <pct> <layers> <hex data>        : aztec.Encode, describe format
// azhl <hex data>                     : highlevelEncode bit string
// azstuff <w> <bits>                  : stuffBits
// azmode <compact 0|1> <layers> <words> : generateModeMessage
// azcw <w> <totalBits> <bits>         : generateCheckWords
// azcfg <pct> <layers> <hex data>     : configuration chosen: "<compact> <layers> <wordSize>" or ERR
// azplace <compact 0|1> <layers>      : "<size> x,y x,y ..." per message bit index; "?" = not determined
// aztb <compact 0|1> <layers>         : totalBitsInLayer
func init() {
	register("az", func(args []string) string {
		return describe(aztec.Encode(unhex(args[2]), atoi(args[0]), atoi(args[1])))
	})
	register("azhl", func(args []string) string {
		return bitsStr(aztec.VerifHighLevel(unhex(args[0])))
	})
	register("azstuff", func(args []string) string {
		return bitsStr(aztec.VerifStuff(strBits(args[1]), atoi(args[0])))
	})
	register("azmode", func(args []string) string {
		return bitsStr(aztec.VerifModeMessage(args[0] == "1", atoi(args[1]), atoi(args[2])))
	})
	register("azcw", func(args []string) string {
		return bitsStr(aztec.VerifCheckWords(strBits(args[2]), atoi(args[1]), atoi(args[0])))
	})
	register("azcfg", func(args []string) string {
		c, l, w, err := aztec.VerifConfig(unhex(args[2]), atoi(args[0]), atoi(args[1]))
		if err != nil {
			return "ERR"
		}
		cs := "0"
		if c {
			cs = "1"
		}
		return cs + " " + itoa(l) + " " + itoa(w)
	})
	register("azplace", func(args []string) string {
		res, size, ok := aztec.VerifPlacement(args[0] == "1", atoi(args[1]), 48, 7)
		if !ok {
			return "ERR"
		}
		p := make([]string, len(res))
		for i, xy := range res {
			if xy[0] < 0 {
				p[i] = "?"
			} else {
				p[i] = itoa(xy[0]) + "," + itoa(xy[1])
			}
		}
		return itoa(size) + " " + strings.Join(p, " ")
	})
	register("aztb", func(args []string) string {
		return itoa(aztec.VerifTotalBitsInLayer(atoi(args[1]), args[0] == "1"))
	})
}
