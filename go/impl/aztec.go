package main

import (
	"strings"
	"sync/atomic"
	"time"

	"github.com/boombuler/barcode"
	"github.com/boombuler/barcode/aztec"
)

// A call into the library that does not return within azTimeout is reported as
// HANG (C10: the encoder never hangs); after two such calls the remaining
// cases of this process are answered HANG-SKIPPED at once, so that a looping
// implementation is reported quickly instead of stalling the check.
const azTimeout = 10 * time.Second

var azHangs int32

func guarded(h handler) handler {
	return func(args []string) string {
		if atomic.LoadInt32(&azHangs) >= 2 {
			return "HANG-SKIPPED"
		}
		ch := make(chan string, 1)
		go func() {
			defer func() {
				if r := recover(); r != nil {
					ch <- "PANIC"
				}
			}()
			ch <- h(args)
		}()
		select {
		case r := <-ch:
			return r
		case <-time.After(azTimeout):
			atomic.AddInt32(&azHangs, 1)
			return "HANG"
		}
	}
}

func bitsStr(bs []bool) string {
	if len(bs) == 0 {
		return "-"
	}
	var sb strings.Builder
	for _, b := range bs {
		if b {
			sb.WriteByte('1')
		} else {
			sb.WriteByte('0')
		}
	}
	return sb.String()
}

func strBits(s string) []bool {
	if s == "-" {
		return nil
	}
	bs := make([]bool, len(s))
	for i := range s {
		bs[i] = s[i] == '1'
	}
	return bs
}

// az <pct> <layers> <hex data>        : aztec.Encode, describe format
// azcol <scheme> <pct> <layers> <hex> : aztec.EncodeWithColor with ColorScheme8/16/24/32
// azhl <hex data>                     : highlevelEncode bit string
// azstuff <w> <bits>                  : stuffBits
// azmode <compact 0|1> <layers> <words> : generateModeMessage
// azcw <w> <totalBits> <bits>         : generateCheckWords
// azcfg <pct> <layers> <hex data>     : configuration chosen: "<compact> <layers> <wordSize>" or ERR
// azplace <compact 0|1> <layers>      : "<size> x,y x,y ..." per message bit index; "?" = not determined
// aztb <compact 0|1> <layers>         : totalBitsInLayer
func init() {
	reg := register
	register := func(tag string, h handler) { reg(tag, guarded(h)) }
	register("az", func(args []string) string {
		return describe(aztec.Encode(unhex(args[2]), atoi(args[0]), atoi(args[1])))
	})
	// azcol <scheme 8|16|24|32> <pct> <layers> <hex data> : aztec.EncodeWithColor; describe prints
	// the modules through the scheme's own foreground / background ('?' for any other colour)
	register("azcol", func(args []string) string {
		sc := map[string]barcode.ColorScheme{"8": barcode.ColorScheme8, "16": barcode.ColorScheme16,
			"24": barcode.ColorScheme24, "32": barcode.ColorScheme32}[args[0]]
		bc, err := aztec.EncodeWithColor(unhex(args[3]), atoi(args[1]), atoi(args[2]), sc)
		if err == nil && (bc.ColorModel() != sc.Model || bc.(barcode.BarcodeColor).ColorScheme() != sc) {
			return "WRONG-SCHEME"
		}
		return describe(bc, err)
	})
	register("azhl", func(args []string) string {
		return bitsStr(aztec.VerifHighLevel(unhex(args[0])))
	})
	register("azstuff", func(args []string) string {
		return bitsStr(aztec.VerifStuff(strBits(args[1]), atoi(args[0])))
	})
	register("azmode", func(args []string) string {
		return bitsStr(aztec.VerifModeMessage(args[0] == "1", atoi(args[1]), atoi(args[2])))
	})
	register("azcw", func(args []string) string {
		return bitsStr(aztec.VerifCheckWords(strBits(args[2]), atoi(args[1]), atoi(args[0])))
	})
	register("azcfg", func(args []string) string {
		c, l, w, err := aztec.VerifConfig(unhex(args[2]), atoi(args[0]), atoi(args[1]))
		if err != nil {
			return "ERR"
		}
		cs := "0"
		if c {
			cs = "1"
		}
		return cs + " " + itoa(l) + " " + itoa(w)
	})
	register("azplace", func(args []string) string {
		res, size, ok := aztec.VerifPlacement(args[0] == "1", atoi(args[1]), 48, 7)
		if !ok {
			return "ERR"
		}
		p := make([]string, len(res))
		for i, xy := range res {
			if xy[0] < 0 {
				p[i] = "?"
			} else {
				p[i] = itoa(xy[0]) + "," + itoa(xy[1])
			}
		}
		return itoa(size) + " " + strings.Join(p, " ")
	})
	register("aztb", func(args []string) string {
		return itoa(aztec.VerifTotalBitsInLayer(atoi(args[1]), args[0] == "1"))
	})
}
