module verif/gosync

go 1.23
