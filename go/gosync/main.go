// Command gosync is the structural part of the /verif translator: it parses and
// type-checks /repo's CURRENT source (non-test files, default build tags, so the
// verif hook files are excluded) and prints the concurrency- and state-relevant
// facts the Coq models of C15/C16 are built from into coq/gen/TabSync.v.
//
// Usage (cwd must be /repo): gosync <output file>
package main

import (
	"fmt"
	"go/ast"
	"go/build"
	"go/importer"
	"go/parser"
	"go/token"
	"go/types"
	"os"
	"path/filepath"
	"sort"
	"strings"
)

const modPath = "github.com/boombuler/barcode"

type pkgInfo struct {
	path  string
	files []*ast.File
	info  *types.Info
	pkg   *types.Package
}

func main() {
	if len(os.Args) != 2 {
		fmt.Fprintln(os.Stderr, "usage: gosync <output file>")
		os.Exit(2)
	}
	root, _ := os.Getwd()
	fset := token.NewFileSet()
	imp := importer.ForCompiler(fset, "source", nil)
	var dirs []string
	filepath.Walk(root, func(p string, fi os.FileInfo, err error) error {
		if err == nil && fi.IsDir() && !strings.HasPrefix(fi.Name(), ".") {
			dirs = append(dirs, p)
		}
		return nil
	})
	sort.Strings(dirs)
	var pkgs []*pkgInfo
	for _, d := range dirs {
		bp, err := build.Default.ImportDir(d, 0)
		if err != nil || len(bp.GoFiles) == 0 {
			continue
		}
		var files []*ast.File
		for _, f := range bp.GoFiles {
			af, err := parser.ParseFile(fset, filepath.Join(d, f), nil, 0)
			if err != nil {
				fmt.Fprintln(os.Stderr, err)
				os.Exit(1)
			}
			files = append(files, af)
		}
		rel, _ := filepath.Rel(root, d)
		path := modPath
		if rel != "." {
			path = modPath + "/" + filepath.ToSlash(rel)
		}
		info := &types.Info{Uses: map[*ast.Ident]types.Object{}, Defs: map[*ast.Ident]types.Object{}, Selections: map[*ast.SelectorExpr]*types.Selection{}}
		conf := types.Config{Importer: imp, Error: func(error) {}}
		pkg, _ := conf.Check(path, fset, files, info)
		pkgs = append(pkgs, &pkgInfo{path, files, info, pkg})
	}

	short := func(p string) string { return strings.TrimPrefix(strings.TrimPrefix(p, modPath), "/") }
	var mutated, methodCalled, goFuncs, chanMakes, polyAccess, retained, paramWrites, paramAppends []string
	locksFirst, defersUnlock := false, false
	goCloseLast := true

	for _, p := range pkgs {
		isGlobal := func(id *ast.Ident) (string, bool) {
			obj := p.info.Uses[id]
			if v, ok := obj.(*types.Var); ok && v.Pkg() == p.pkg && v.Parent() == p.pkg.Scope() {
				n := short(p.path)
				if n == "" {
					n = "barcode"
				}
				return n + "." + v.Name(), true
			}
			return "", false
		}
		rootIdent := func(e ast.Expr) *ast.Ident {
			for {
				switch x := e.(type) {
				case *ast.Ident:
					return x
				case *ast.SelectorExpr:
					e = x.X
				case *ast.IndexExpr:
					e = x.X
				case *ast.StarExpr:
					e = x.X
				case *ast.ParenExpr:
					e = x.X
				case *ast.SliceExpr:
					e = x.X
				default:
					return nil
				}
			}
		}
		for _, f := range p.files {
			for _, decl := range f.Decls {
				fd, ok := decl.(*ast.FuncDecl)
				if !ok || fd.Body == nil {
					continue
				}
				fname := fd.Name.Name
				if fd.Recv != nil {
					fname = "(method)" + fname
				}
				qual := short(p.path) + "." + fd.Name.Name
				inInit := fd.Name.Name == "init" && fd.Recv == nil
				if p.path == modPath+"/utils" && fd.Name.Name == "getPolynomial" {
					if len(fd.Body.List) >= 2 {
						if es, ok := fd.Body.List[0].(*ast.ExprStmt); ok {
							locksFirst = exprString(es.X) == "rs.m.Lock()"
						}
						if ds, ok := fd.Body.List[1].(*ast.DeferStmt); ok {
							defersUnlock = exprString(ds.Call) == "rs.m.Unlock()"
						}
					}
				}
				// slice-typed parameters of this function
				sliceParams := map[types.Object]bool{}
				if fd.Type.Params != nil {
					for _, fld := range fd.Type.Params.List {
						for _, nm := range fld.Names {
							if obj := p.info.Defs[nm]; obj != nil {
								if _, ok := obj.Type().Underlying().(*types.Slice); ok {
									sliceParams[obj] = true
								}
							}
						}
					}
				}
				ast.Inspect(fd.Body, func(n ast.Node) bool {
					switch x := n.(type) {
					case *ast.AssignStmt:
						for i, l := range x.Lhs {
							// field := bare slice parameter  => the callee keeps the caller's buffer
							if i < len(x.Rhs) {
								if rid, ok := x.Rhs[i].(*ast.Ident); ok && sliceParams[p.info.Uses[rid]] {
									if _, isSel := l.(*ast.SelectorExpr); isSel {
										retained = append(retained, qual)
									}
								}
							}
							// param[i] = ...  => the callee writes into the caller's buffer
							if ix, ok := l.(*ast.IndexExpr); ok {
								if bid, ok := ix.X.(*ast.Ident); ok && sliceParams[p.info.Uses[bid]] && fd.Name.IsExported() {
									paramWrites = append(paramWrites, qual)
								}
							}
						}
						if inInit {
							break
						}
						for _, l := range x.Lhs {
							if id := rootIdent(l); id != nil {
								if g, ok := isGlobal(id); ok {
									mutated = append(mutated, g)
								}
							}
						}
					case *ast.IncDecStmt:
						if id := rootIdent(x.X); id != nil && !inInit {
							if g, ok := isGlobal(id); ok {
								mutated = append(mutated, g)
							}
						}
					case *ast.UnaryExpr:
						if x.Op == token.AND && !inInit {
							if id := rootIdent(x.X); id != nil {
								if g, ok := isGlobal(id); ok {
									mutated = append(mutated, g+"(&)")
								}
							}
						}
					case *ast.CallExpr:
						// append(param, ...) may write into the caller's backing array beyond len
						if id, ok := x.Fun.(*ast.Ident); ok && id.Name == "append" && len(x.Args) >= 1 {
							if aid, ok := x.Args[0].(*ast.Ident); ok && sliceParams[p.info.Uses[aid]] {
								paramAppends = append(paramAppends, qual)
							}
						}
						if sel, ok := x.Fun.(*ast.SelectorExpr); ok && !inInit {
							if s := p.info.Selections[sel]; s != nil && s.Kind() == types.MethodVal {
								if id := rootIdent(sel.X); id != nil {
									if g, ok := isGlobal(id); ok {
										// a method call through a package-level variable: may mutate what it points to
										if fn, ok := s.Obj().(*types.Func); ok {
											sig := fn.Type().(*types.Signature)
											if _, ptr := sig.Recv().Type().(*types.Pointer); ptr {
												methodCalled = append(methodCalled, g)
											}
										}
									}
								}
							}
						}
						if id, ok := x.Fun.(*ast.Ident); ok && id.Name == "make" && len(x.Args) >= 1 {
							if _, ok := x.Args[0].(*ast.ChanType); ok {
								buf := "unbuffered"
								if len(x.Args) > 1 {
									buf = "buffered"
								}
								chanMakes = append(chanMakes, qual+":"+buf)
							}
						}
					case *ast.GoStmt:
						goFuncs = append(goFuncs, qual)
						if fl, ok := x.Call.Fun.(*ast.FuncLit); ok {
							n := len(fl.Body.List)
							last := ""
							if n > 0 {
								if es, ok := fl.Body.List[n-1].(*ast.ExprStmt); ok {
									last = exprString(es.X)
								}
							}
							if !strings.HasPrefix(last, "close(") {
								goCloseLast = false
							}
						} else {
							goCloseLast = false
						}
					case *ast.SelectorExpr:
						if x.Sel.Name == "polynomes" {
							polyAccess = append(polyAccess, qual)
						}
					}
					return true
				})
			}
		}
	}
	uniq := func(l []string) []string {
		sort.Strings(l)
		var r []string
		for i, s := range l {
			if i == 0 || l[i-1] != s {
				r = append(r, s)
			}
		}
		return r
	}
	coqStrs := func(l []string) string {
		q := make([]string, len(l))
		for i, s := range l {
			q[i] = "\"" + s + "\""
		}
		return "[" + strings.Join(q, "; ") + "]"
	}
	var sb strings.Builder
	sb.WriteString("(* GENERATED by /verif/go/gosync from /repo's current source (go/parser + go/types) -- do not edit. *)\n")
	sb.WriteString("From Coq Require Import String List.\nImport ListNotations.\nLocal Open Scope string_scope.\n\n")
	fmt.Fprintf(&sb, "(* utils.getPolynomial: first statement is rs.m.Lock(), second is defer rs.m.Unlock() *)\n")
	fmt.Fprintf(&sb, "Definition sync_getpoly_locks_first : bool := %v.\n", locksFirst)
	fmt.Fprintf(&sb, "Definition sync_getpoly_defers_unlock : bool := %v.\n", defersUnlock)
	fmt.Fprintf(&sb, "(* functions that mention the cache field 'polynomes' *)\nDefinition sync_polynomes_accessed_in : list string := %s.\n", coqStrs(uniq(polyAccess)))
	fmt.Fprintf(&sb, "(* package-level variables assigned, incremented or address-taken outside init() *)\nDefinition sync_globals_mutated : list string := %s.\n", coqStrs(uniq(mutated)))
	fmt.Fprintf(&sb, "(* package-level variables through which a pointer-receiver method is called outside init() *)\nDefinition sync_globals_method_called : list string := %s.\n", coqStrs(uniq(methodCalled)))
	sort.Strings(goFuncs)
	fmt.Fprintf(&sb, "(* one entry per go statement: the function containing it *)\nDefinition sync_go_statements : list string := %s.\n", coqStrs(goFuncs))
	sort.Strings(chanMakes)
	fmt.Fprintf(&sb, "(* one entry per make(chan ...) *)\nDefinition sync_chan_makes : list string := %s.\n", coqStrs(chanMakes))
	fmt.Fprintf(&sb, "(* every go statement runs a function literal whose last statement is close(ch) *)\nDefinition sync_goroutines_close_last : bool := %v.\n", goCloseLast)
	fmt.Fprintf(&sb, "(* functions that store a slice-typed parameter itself (not a copy) into a struct field *)\nDefinition sync_slice_params_retained : list string := %s.\n", coqStrs(uniq(retained)))
	fmt.Fprintf(&sb, "(* exported functions that assign to an element of a slice-typed parameter *)\nDefinition sync_slice_params_written : list string := %s.\n", coqStrs(uniq(paramWrites)))
	fmt.Fprintf(&sb, "(* functions that call append on a slice-typed parameter (may write beyond its length into the caller's array) *)\nDefinition sync_slice_params_appended : list string := %s.\n", coqStrs(uniq(paramAppends)))
	txt := sb.String()
	old, err := os.ReadFile(os.Args[1])
	if err == nil && string(old) == txt {
		fmt.Println("TabSync unchanged")
		return
	}
	if err := os.WriteFile(os.Args[1], []byte(txt), 0o644); err != nil {
		fmt.Fprintln(os.Stderr, err)
		os.Exit(1)
	}
	fmt.Println("TabSync written")
}

func exprString(e ast.Expr) string {
	switch x := e.(type) {
	case *ast.Ident:
		return x.Name
	case *ast.SelectorExpr:
		return exprString(x.X) + "." + x.Sel.Name
	case *ast.CallExpr:
		var a []string
		for _, y := range x.Args {
			a = append(a, exprString(y))
		}
		return exprString(x.Fun) + "(" + strings.Join(a, ",") + ")"
	}
	return "?"
}
