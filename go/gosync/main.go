// Command gosync is the structural part of the /verif translator: it parses and
// type-checks /repo's CURRENT source (non-test files, default build tags, so the
// verif hook files are excluded) and prints the concurrency- and state-relevant
// facts the Coq models of C15/C16 are built from into coq/gen/TabSync.v.
//
// Usage (cwd must be /repo): gosync <output file>
package main

import (
	"fmt"
	"go/ast"
	"go/build"
	"go/importer"
	"go/parser"
	"go/token"
	"go/types"
	"os"
	"path/filepath"
	"sort"
	"strings"
)

const modPath = "github.com/boombuler/barcode"

type pkgInfo struct {
	path  string
	files []*ast.File
	info  *types.Info
	pkg   *types.Package
}

func main() {
	if len(os.Args) != 2 {
		fmt.Fprintln(os.Stderr, "usage: gosync <output file>")
		os.Exit(2)
	}
	root, _ := os.Getwd()
	fset := token.NewFileSet()
	imp := importer.ForCompiler(fset, "source", nil)
	var dirs []string
	filepath.Walk(root, func(p string, fi os.FileInfo, err error) error {
		if err == nil && fi.IsDir() && !strings.HasPrefix(fi.Name(), ".") {
			dirs = append(dirs, p)
		}
		return nil
	})
	sort.Strings(dirs)
	var pkgs []*pkgInfo
	for _, d := range dirs {
		bp, err := build.Default.ImportDir(d, 0)
		if err != nil || len(bp.GoFiles) == 0 {
			continue
		}
		var files []*ast.File
		for _, f := range bp.GoFiles {
			af, err := parser.ParseFile(fset, filepath.Join(d, f), nil, 0)
			if err != nil {
				fmt.Fprintln(os.Stderr, err)
				os.Exit(1)
			}
			files = append(files, af)
		}
		rel, _ := filepath.Rel(root, d)
		path := modPath
		if rel != "." {
			path = modPath + "/" + filepath.ToSlash(rel)
		}
		info := &types.Info{Uses: map[*ast.Ident]types.Object{}, Defs: map[*ast.Ident]types.Object{}, Selections: map[*ast.SelectorExpr]*types.Selection{},
			Types: map[ast.Expr]types.TypeAndValue{}, Implicits: map[ast.Node]types.Object{}}
		conf := types.Config{Importer: imp, Error: func(error) {}}
		pkg, _ := conf.Check(path, fset, files, info)
		pkgs = append(pkgs, &pkgInfo{path, files, info, pkg})
	}

	short := func(p string) string { return strings.TrimPrefix(strings.TrimPrefix(p, modPath), "/") }
	var goFuncs, chanMakes, polyAccess, retained, paramWrites, paramAppends []string
	type appendSite struct {
		qual string
		fn   types.Object
		idx  int
	}
	var appendSites []appendSite
	// sync_globals_mutated / sync_globals_method_called: interprocedural may-write analysis (see below)
	mutated, methodCalled, an := mayWriteAnalysis(fset, pkgs)

	locksFirst, defersUnlock := false, false
	goCloseLast := true

	for _, p := range pkgs {
		for _, f := range p.files {
			for _, decl := range f.Decls {
				fd, ok := decl.(*ast.FuncDecl)
				if !ok || fd.Body == nil {
					continue
				}
				qual := short(p.path) + "." + fd.Name.Name
				if p.path == modPath+"/utils" && fd.Name.Name == "getPolynomial" {
					if len(fd.Body.List) >= 2 {
						if es, ok := fd.Body.List[0].(*ast.ExprStmt); ok {
							locksFirst = exprString(es.X) == "rs.m.Lock()"
						}
						if ds, ok := fd.Body.List[1].(*ast.DeferStmt); ok {
							defersUnlock = exprString(ds.Call) == "rs.m.Unlock()"
						}
					}
				}
				// slice-typed parameters of this function
				sliceParams := map[types.Object]bool{}
				paramIdx := map[types.Object]int{} // index in the analysis' numbering: receiver (if any) first
				if fd.Type.Params != nil {
					pi := 0
					if fd.Recv != nil {
						pi = 1
					}
					for _, fld := range fd.Type.Params.List {
						if len(fld.Names) == 0 {
							pi++
						}
						for _, nm := range fld.Names {
							if obj := p.info.Defs[nm]; obj != nil {
								paramIdx[obj] = pi
								if _, ok := obj.Type().Underlying().(*types.Slice); ok {
									sliceParams[obj] = true
								}
							}
							pi++
						}
					}
				}
				ast.Inspect(fd.Body, func(n ast.Node) bool {
					switch x := n.(type) {
					case *ast.AssignStmt:
						for i, l := range x.Lhs {
							// field := bare slice parameter  => the callee keeps the caller's buffer
							if i < len(x.Rhs) {
								if rid, ok := x.Rhs[i].(*ast.Ident); ok && sliceParams[p.info.Uses[rid]] {
									if _, isSel := l.(*ast.SelectorExpr); isSel {
										retained = append(retained, qual)
									}
								}
							}
							// param[i] = ...  => the callee writes into the caller's buffer
							if ix, ok := l.(*ast.IndexExpr); ok {
								if bid, ok := ix.X.(*ast.Ident); ok && sliceParams[p.info.Uses[bid]] && fd.Name.IsExported() {
									paramWrites = append(paramWrites, qual)
								}
							}
						}
					case *ast.CallExpr:
						// append(param, ...) may write into the caller's backing array beyond len
						if id, ok := x.Fun.(*ast.Ident); ok && id.Name == "append" && len(x.Args) >= 1 {
							if aid, ok := x.Args[0].(*ast.Ident); ok && sliceParams[p.info.Uses[aid]] {
								paramAppends = append(paramAppends, qual)
								appendSites = append(appendSites, appendSite{qual, p.info.Defs[fd.Name], paramIdx[p.info.Uses[aid]]})
							}
						}
						if id, ok := x.Fun.(*ast.Ident); ok && id.Name == "make" && len(x.Args) >= 1 {
							if _, ok := x.Args[0].(*ast.ChanType); ok {
								buf := "unbuffered"
								if len(x.Args) > 1 {
									buf = "buffered"
								}
								chanMakes = append(chanMakes, qual+":"+buf)
							}
						}
					case *ast.GoStmt:
						goFuncs = append(goFuncs, qual)
						if fl, ok := x.Call.Fun.(*ast.FuncLit); ok {
							n := len(fl.Body.List)
							last := ""
							if n > 0 {
								if es, ok := fl.Body.List[n-1].(*ast.ExprStmt); ok {
									last = exprString(es.X)
								}
							}
							// ... or the body defers the close at its top level (it then runs when the goroutine returns)
							deferred := false
							for _, st := range fl.Body.List {
								if ds, ok := st.(*ast.DeferStmt); ok && strings.HasPrefix(exprString(ds.Call), "close(") {
									deferred = true
								}
							}
							if !strings.HasPrefix(last, "close(") && !deferred {
								goCloseLast = false
							}
						} else {
							goCloseLast = false
						}
					case *ast.SelectorExpr:
						if x.Sel.Name == "polynomes" {
							polyAccess = append(polyAccess, qual)
						}
					}
					return true
				})
			}
		}
	}
	// append on a slice parameter matters when the slice can be one that a caller of the library passed in
	var apiAppends []string
	for _, st := range appendSites {
		if st.fn != nil && an.fromAPI(an.posKey(st.fn.Pos()), st.idx) {
			apiAppends = append(apiAppends, st.qual)
		}
	}
	uniq := func(l []string) []string {
		sort.Strings(l)
		var r []string
		for i, s := range l {
			if i == 0 || l[i-1] != s {
				r = append(r, s)
			}
		}
		return r
	}
	coqStrs := func(l []string) string {
		q := make([]string, len(l))
		for i, s := range l {
			q[i] = "\"" + s + "\""
		}
		return "[" + strings.Join(q, "; ") + "]"
	}
	var sb strings.Builder
	sb.WriteString("(* GENERATED by /verif/go/gosync from /repo's current source (go/parser + go/types) -- do not edit. *)\n")
	sb.WriteString("From Coq Require Import String List.\nImport ListNotations.\nLocal Open Scope string_scope.\n\n")
	fmt.Fprintf(&sb, "(* utils.getPolynomial: first statement is rs.m.Lock(), second is defer rs.m.Unlock() *)\n")
	fmt.Fprintf(&sb, "Definition sync_getpoly_locks_first : bool := %v.\n", locksFirst)
	fmt.Fprintf(&sb, "Definition sync_getpoly_defers_unlock : bool := %v.\n", defersUnlock)
	fmt.Fprintf(&sb, "(* functions that mention the cache field 'polynomes' *)\nDefinition sync_polynomes_accessed_in : list string := %s.\n", coqStrs(uniq(polyAccess)))
	fmt.Fprintf(&sb, "(* package-level variables that may be MUTATED outside init(): assigned/incremented directly or through any path, written through a local alias or a pointer returned by a library function, passed (itself, an element, a sub-slice, its address) to a parameter the callee may write through (interprocedural may-write analysis; calls outside the library, through function values and interface methods write through every pointer/slice/map argument), or escaping untracked (suffix (&)) *)\nDefinition sync_globals_mutated : list string := %s.\n", coqStrs(uniq(mutated)))
	fmt.Fprintf(&sb, "(* package-level variables through which (directly or via an alias) a library method is called outside init() that may WRITE through its receiver (transitively; taking a mutex counts) *)\nDefinition sync_globals_method_called : list string := %s.\n", coqStrs(uniq(methodCalled)))
	sort.Strings(goFuncs)
	fmt.Fprintf(&sb, "(* one entry per go statement: the function containing it *)\nDefinition sync_go_statements : list string := %s.\n", coqStrs(goFuncs))
	sort.Strings(chanMakes)
	fmt.Fprintf(&sb, "(* one entry per make(chan ...) *)\nDefinition sync_chan_makes : list string := %s.\n", coqStrs(chanMakes))
	fmt.Fprintf(&sb, "(* every go statement runs a function literal whose last statement is close(ch) or that defers close(ch) at its top level *)\nDefinition sync_goroutines_close_last : bool := %v.\n", goCloseLast)
	fmt.Fprintf(&sb, "(* functions that store a slice-typed parameter itself (not a copy) into a struct field *)\nDefinition sync_slice_params_retained : list string := %s.\n", coqStrs(uniq(retained)))
	fmt.Fprintf(&sb, "(* exported functions that assign to an element of a slice-typed parameter *)\nDefinition sync_slice_params_written : list string := %s.\n", coqStrs(uniq(paramWrites)))
	fmt.Fprintf(&sb, "(* functions that call append on a slice-typed parameter (may write beyond its length into the caller's array) *)\nDefinition sync_slice_params_appended : list string := %s.\n", coqStrs(uniq(paramAppends)))
	fmt.Fprintf(&sb, "(* ... of these, the functions whose appended parameter may be bound, through calls inside the library, to a slice that an exported function received from its caller *)\nDefinition sync_api_slices_appended : list string := %s.\n", coqStrs(uniq(apiAppends)))
	txt := sb.String()
	old, err := os.ReadFile(os.Args[1])
	if err == nil && string(old) == txt {
		fmt.Println("TabSync unchanged")
		return
	}
	if err := os.WriteFile(os.Args[1], []byte(txt), 0o644); err != nil {
		fmt.Fprintln(os.Stderr, err)
		os.Exit(1)
	}
	fmt.Println("TabSync written")
}

func exprString(e ast.Expr) string {
	switch x := e.(type) {
	case *ast.Ident:
		return x.Name
	case *ast.SelectorExpr:
		return exprString(x.X) + "." + x.Sel.Name
	case *ast.CallExpr:
		var a []string
		for _, y := range x.Args {
			a = append(a, exprString(y))
		}
		return exprString(x.Fun) + "(" + strings.Join(a, ",") + ")"
	}
	return "?"
}

// ---------------------------------------------------------------------------
// Interprocedural, flow-insensitive may-write analysis
//
// Abstract memory roots:
//   G name      a package-level variable and everything reachable from it
//   P f#i       what parameter i of library function f (receiver = 0) points to directly
//   Q f#i[.fld] everything reachable below that (deeper levels of indirection), optionally
//               restricted to what is reached through field fld of the direct referent
//   L v         the storage of the local variable v (only while analysing its function)
// An abstract value is a pair (d, i): the roots the pointers contained in the value may
// point to DIRECTLY (d) and the roots reachable through further indirections (i). The
// distinction keeps "a fresh slice holding pointers into a table" apart from "the table".
// Struct fields are handled field-based (one abstract cell per declared field, FA),
// package-level variables may alias each other through initialisers/assignments (GA),
// and PA binds every parameter to the union of the actual arguments of all call sites
// (used to resolve parameters that were stored into fields).
//
// Writes: assignment / IncDec / op-assign through any path; append, delete, clear, close on the
// first argument, copy on its destination, channel send; calls to library functions that write
// (W[f], per parameter / level / field); calls outside the library, through function values and
// through interface methods write through every pointer-, slice- or map-typed argument (and, for
// concrete external methods, the receiver: Mutex.Lock writes rs.m). fmt.Sprintf/Sprint/Sprintln/
// Errorf are treated as read-only. Code in init() and package-level initialisers is exempt.
//
// Known imprecision (false alarms possible): one cell per declared struct field, not per object;
// below the first level only one field of access path is kept; append and every external callee
// count as writes; flow- and context-insensitive apart from W and R.
// Known unsoundness (a mutation may be missed): receivers of interface-method calls are not counted
// as written; for unknown callees only arguments whose STATIC type is pointer, slice or map count (a
// pointer hidden in an interface or struct-by-value argument is assumed not written); unsafe,
// reflect and whole-struct writes after a pointer conversion are not tracked; pointers returned
// from exported functions to callers outside the library are not followed.
// ---------------------------------------------------------------------------

type root struct {
	k byte   // 'G', 'P', 'Q', 'L'
	s string // G: printed name; P/Q: function key; L: variable key
	i int    // P/Q: parameter index
	f string // Q only: "" = anything below the parameter's referent; else the key of a struct
	//          field: what that field of the referent points to and everything below it
}

type rset map[root]struct{}

type val struct{ d, i rset }

const (
	kindD = 1 // direct write (assignment, builtin, unknown callee)
	kindM = 2 // write by a library method through its receiver
)

type wkey struct {
	param, level int
	field        string // level 2 only: restriction to one field of the referent ("" = any)
}

type fnInfo struct {
	key      string
	qual     string
	decl     *ast.FuncDecl
	p        *pkgInfo
	params   []types.Object // receiver first (if any); nil entries for unnamed/blank
	hasRecv  bool
	variadic bool
	results  []types.Object // named results or nil entries
	W        map[wkey]uint8
	R        []*val
	exempt   bool // init()
}

type analysis struct {
	fset    *token.FileSet
	fns     map[string]*fnInfo
	order   []*fnInfo
	local   map[types.Object]*val
	lobj    map[string]types.Object
	derived map[types.Object]map[types.Object]bool
	FA      map[string]*val
	GA      map[string]*val
	PA      map[root]*val
	changed bool
	mutated map[string]string // name -> first position (for -debug)
	mcalled map[string]string
	debug   bool
}

type ctx struct {
	a      *analysis
	p      *pkgInfo
	fn     *fnInfo // nil inside package-level initialisers
	exempt bool
}

func (s rset) add(r root) bool {
	if _, ok := s[r]; ok {
		return false
	}
	s[r] = struct{}{}
	return true
}

func newVal() val { return val{rset{}, rset{}} }

func (v val) empty() bool { return len(v.d) == 0 && len(v.i) == 0 }

func (v val) union(w val) val {
	r := newVal()
	for _, x := range []val{v, w} {
		for k := range x.d {
			r.d[k] = struct{}{}
		}
		for k := range x.i {
			r.i[k] = struct{}{}
		}
	}
	return r
}

// all returns d ∪ i
func (v val) all() rset {
	r := rset{}
	for k := range v.d {
		r[k] = struct{}{}
	}
	for k := range v.i {
		r[k] = struct{}{}
	}
	return r
}

// merge adds w into the stored value *dst and records growth.
func (a *analysis) merge(dst *val, w val) {
	if dst.d == nil {
		dst.d, dst.i = rset{}, rset{}
	}
	for k := range w.d {
		if dst.d.add(k) {
			a.changed = true
		}
	}
	for k := range w.i {
		if dst.i.add(k) {
			a.changed = true
		}
	}
}

func hasPtr(t types.Type) bool { return hasPtrRec(t, 0) }

func hasPtrRec(t types.Type, depth int) bool {
	if t == nil || depth > 20 {
		return true
	}
	switch u := t.Underlying().(type) {
	case *types.Basic:
		return u.Kind() == types.UnsafePointer || u.Kind() == types.UntypedNil
	case *types.Pointer, *types.Slice, *types.Map, *types.Chan, *types.Signature, *types.Interface:
		return true
	case *types.Struct:
		for i := 0; i < u.NumFields(); i++ {
			if hasPtrRec(u.Field(i).Type(), depth+1) {
				return true
			}
		}
		return false
	case *types.Array:
		return hasPtrRec(u.Elem(), depth+1)
	case *types.Tuple:
		for i := 0; i < u.Len(); i++ {
			if hasPtrRec(u.At(i).Type(), depth+1) {
				return true
			}
		}
		return false
	}
	return true
}

// written-through argument types of unknown callees: pointer, slice, map
func isPSM(t types.Type) bool {
	if t == nil {
		return false
	}
	switch t.Underlying().(type) {
	case *types.Pointer, *types.Slice, *types.Map:
		return true
	}
	return false
}

func inLibrary(pkg *types.Package) bool {
	return pkg != nil && (pkg.Path() == modPath || strings.HasPrefix(pkg.Path(), modPath+"/"))
}

func shortPkg(path string) string {
	n := strings.TrimPrefix(strings.TrimPrefix(path, modPath), "/")
	if n == "" {
		n = "barcode"
	}
	return n
}

func (a *analysis) posKey(p token.Pos) string {
	ps := a.fset.Position(p)
	return fmt.Sprintf("%s:%d:%d", ps.Filename, ps.Line, ps.Column)
}

// globalName returns the printed name if obj is a package-level variable of the library.
func globalName(obj types.Object) (string, bool) {
	v, ok := obj.(*types.Var)
	if !ok || v.IsField() || v.Pkg() == nil || !inLibrary(v.Pkg()) || v.Parent() != v.Pkg().Scope() {
		return "", false
	}
	return shortPkg(v.Pkg().Path()) + "." + v.Name(), true
}

// ---- abstract values -------------------------------------------------------

func (a *analysis) lval(obj types.Object) *val {
	v := a.local[obj]
	if v == nil {
		nv := newVal()
		v = &nv
		a.local[obj] = v
	}
	return v
}

func (a *analysis) lroot(obj types.Object) root {
	k := a.posKey(obj.Pos()) + ":" + obj.Name()
	a.lobj[k] = obj
	return root{k: 'L', s: k}
}

// load: the roots a pointer stored IN the memory named r may point to (one dereference).
func (a *analysis) load(r root, d, i rset) {
	switch r.k {
	case 'G':
		d.add(r)
	case 'P':
		d.add(root{k: 'Q', s: r.s, i: r.i})
	case 'Q':
		d.add(r)
	case 'L':
		if obj := a.lobj[r.s]; obj != nil {
			v := a.lval(obj)
			for k := range v.d {
				d.add(k)
			}
			for k := range v.i {
				i.add(k)
			}
		}
	}
}

// derefField: the value of field fk loaded through the pointer value v. The referent is either
// a named root (then the result is named, restricted to the field for parameters) or anonymous
// memory, whose field contents are all recorded in the field cell FA[fk]; v.i is not needed.
func (a *analysis) derefField(v val, fk string) val {
	r := newVal()
	for k := range v.d {
		if k.k == 'P' {
			r.d.add(root{k: 'Q', s: k.s, i: k.i, f: fk})
		} else {
			a.load(k, r.d, r.i)
		}
	}
	if fa := a.FA[fk]; fa != nil {
		r = r.union(*fa)
	}
	return r
}

// closure of a root set under arbitrary further dereferences
func (a *analysis) closure(s rset) rset {
	res := rset{}
	var work []root
	for r := range s {
		if res.add(r) {
			work = append(work, r)
		}
	}
	for len(work) > 0 {
		r := work[len(work)-1]
		work = work[:len(work)-1]
		d, i := rset{}, rset{}
		a.load(r, d, i)
		for _, x := range []rset{d, i} {
			for k := range x {
				if res.add(k) {
					work = append(work, k)
				}
			}
		}
	}
	return res
}

// deref: the value loaded through a pointer value v.
func (a *analysis) deref(v val) val {
	r := newVal()
	for k := range v.d {
		a.load(k, r.d, r.i)
	}
	if len(v.i) > 0 {
		for k := range a.closure(v.i) {
			r.d.add(k)
			r.i.add(k)
		}
	}
	return r
}

// reachAll: every root reachable from the value at any depth >= 1.
func (a *analysis) reachAll(v val) rset { return a.closure(v.all()) }

// reachBelow: every root reachable strictly below the first level.
func (a *analysis) reachBelow(v val) rset { return a.closure(a.deref(v).all()) }

// below: like reachBelow, optionally restricted to what is reached through one field.
func (a *analysis) below(v val, fk string) rset {
	if fk == "" {
		return a.reachBelow(v)
	}
	return a.closure(a.derefField(v, fk).all())
}

// flatten removes function-local L roots (escaping locals become anonymous memory whose
// contents are kept in i) so that the value can be stored in a global table.
func (a *analysis) flatten(v val) val {
	r := newVal()
	for k := range v.d {
		if k.k != 'L' {
			r.d.add(k)
		}
	}
	hasL := false
	for k := range v.d {
		if k.k == 'L' {
			hasL = true
		}
	}
	for k := range v.i {
		if k.k == 'L' {
			hasL = true
		} else {
			r.i.add(k)
		}
	}
	if hasL {
		for k := range a.closure(v.all()) {
			if k.k != 'L' {
				if _, direct := r.d[k]; !direct {
					r.i.add(k)
				}
			}
		}
	}
	return r
}

func (c *ctx) typeOf(e ast.Expr) types.Type { return c.p.info.TypeOf(e) }

func (c *ctx) objOf(id *ast.Ident) types.Object {
	if o := c.p.info.Uses[id]; o != nil {
		return o
	}
	return c.p.info.Defs[id]
}

func (c *ctx) paramIndex(obj types.Object) int {
	if c.fn == nil {
		return -1
	}
	for i, p := range c.fn.params {
		if p == obj && p != nil {
			return i
		}
	}
	return -1
}

// value of a variable (as an rvalue)
func (c *ctx) identVal(id *ast.Ident) val {
	obj := c.objOf(id)
	v, ok := obj.(*types.Var)
	if !ok {
		return newVal()
	}
	if g, ok := globalName(v); ok {
		r := newVal()
		r.d.add(root{k: 'G', s: g})
		if ga := c.a.GA[g]; ga != nil {
			for k := range ga.all() {
				r.i.add(k)
			}
		}
		return r
	}
	if v.Pkg() == nil || !inLibrary(v.Pkg()) || v.IsField() {
		return newVal() // variables of other packages are not tracked
	}
	r := newVal().union(*c.a.lval(v))
	if i := c.paramIndex(v); i >= 0 {
		r.d.add(root{k: 'P', s: c.fn.key, i: i})
		r.i.add(root{k: 'Q', s: c.fn.key, i: i})
	}
	return r
}

func (c *ctx) fieldKey(f *types.Var) string { return c.a.posKey(f.Pos()) }

func (c *ctx) fieldVal(f *types.Var) val {
	if v := c.a.FA[c.fieldKey(f)]; v != nil {
		return *v
	}
	return newVal()
}

func deptr(t types.Type) (types.Type, bool) {
	if p, ok := t.Underlying().(*types.Pointer); ok {
		return p.Elem(), true
	}
	return t, false
}

// value of the field selection x.<path>
func (c *ctx) fieldPath(x ast.Expr, sel *types.Selection) val {
	v := c.eval(x)
	t := c.typeOf(x)
	for _, idx := range sel.Index() {
		var isp bool
		t, isp = deptr(t)
		st, ok := t.Underlying().(*types.Struct)
		if !ok {
			return v
		}
		f := st.Field(idx)
		if isp {
			v = c.a.derefField(v, c.fieldKey(f))
		} else {
			v = v.union(c.fieldVal(f))
		}
		t = f.Type()
	}
	return v
}

// eval: abstract value of an expression (no events are generated here).
func (c *ctx) eval(e ast.Expr) val {
	t := c.typeOf(e)
	if t != nil && !hasPtr(t) {
		return newVal()
	}
	switch x := e.(type) {
	case *ast.ParenExpr:
		return c.eval(x.X)
	case *ast.Ident:
		return c.identVal(x)
	case *ast.SelectorExpr:
		if sel := c.p.info.Selections[x]; sel != nil {
			switch sel.Kind() {
			case types.FieldVal:
				return c.fieldPath(x.X, sel)
			case types.MethodVal:
				s := c.a.reachAll(c.recvArg(x, sel))
				return val{s, s}
			}
			return newVal()
		}
		return c.identVal(x.Sel)
	case *ast.IndexExpr:
		xt := c.typeOf(x.X)
		if xt == nil {
			return newVal()
		}
		switch u := xt.Underlying().(type) {
		case *types.Array:
			return c.eval(x.X)
		case *types.Slice, *types.Map:
			return c.a.deref(c.eval(x.X))
		case *types.Pointer:
			_ = u
			return c.a.deref(c.eval(x.X))
		}
		return newVal()
	case *ast.SliceExpr:
		if xt := c.typeOf(x.X); xt != nil {
			if _, ok := xt.Underlying().(*types.Array); ok {
				return c.addrOf(x.X)
			}
		}
		return c.eval(x.X)
	case *ast.StarExpr:
		return c.a.deref(c.eval(x.X))
	case *ast.UnaryExpr:
		switch x.Op {
		case token.AND:
			return c.addrOf(x.X)
		case token.ARROW:
			return c.a.deref(c.eval(x.X))
		}
		return newVal()
	case *ast.TypeAssertExpr:
		return c.eval(x.X)
	case *ast.CallExpr:
		rs := c.evalCall(x)
		if len(rs) > 0 {
			return rs[0]
		}
		return newVal()
	case *ast.CompositeLit:
		return c.evalLit(x)
	case *ast.FuncLit:
		r := newVal()
		for _, ret := range funcLitReturns(x) {
			for _, re := range ret.Results {
				for k := range c.a.reachAll(c.eval(re)) {
					r.d.add(k)
					r.i.add(k)
				}
			}
		}
		return r
	}
	return newVal()
}

func (c *ctx) evalLit(x *ast.CompositeLit) val {
	t := c.typeOf(x)
	if t == nil {
		return newVal()
	}
	elided := false
	if et, isp := deptr(t); isp { // elided &T inside a []*T{...} literal
		t, elided = et, true
	}
	ev := newVal()
	for _, el := range x.Elts {
		if kv, ok := el.(*ast.KeyValueExpr); ok {
			if _, isMap := t.Underlying().(*types.Map); isMap {
				ev = ev.union(c.eval(kv.Key))
			}
			el = kv.Value
		}
		ev = ev.union(c.eval(el))
	}
	switch t.Underlying().(type) {
	case *types.Struct, *types.Array:
		if elided {
			return val{rset{}, ev.all()}
		}
		return ev
	}
	return val{rset{}, ev.all()}
}

// addrOf: pointer to the storage denoted by the (addressable or composite-literal) expression.
func (c *ctx) addrOf(e ast.Expr) val {
	switch x := e.(type) {
	case *ast.ParenExpr:
		return c.addrOf(x.X)
	case *ast.Ident:
		return c.addrOfIdent(x)
	case *ast.SelectorExpr:
		sel := c.p.info.Selections[x]
		if sel == nil {
			return c.addrOfIdent(x.Sel)
		}
		if sel.Kind() != types.FieldVal {
			return newVal()
		}
		t := c.typeOf(x.X)
		var loc val
		if _, isp := deptr(t); isp {
			loc = c.eval(x.X)
			t, _ = deptr(t)
		} else {
			loc = c.addrOf(x.X)
		}
		idxs := sel.Index()
		for n, idx := range idxs {
			st, ok := t.Underlying().(*types.Struct)
			if !ok {
				break
			}
			f := st.Field(idx)
			fv := c.fieldVal(f)
			if n == len(idxs)-1 {
				r := newVal().union(loc)
				for k := range fv.all() {
					r.i.add(k)
				}
				return r
			}
			t = f.Type()
			if et, isp := deptr(t); isp { // embedded pointer: hop
				loc = c.a.derefField(loc, c.fieldKey(f))
				t = et
			}
		}
		return loc
	case *ast.IndexExpr:
		if xt := c.typeOf(x.X); xt != nil {
			if _, ok := xt.Underlying().(*types.Array); ok {
				return c.addrOf(x.X)
			}
		}
		return c.eval(x.X)
	case *ast.StarExpr:
		return c.eval(x.X)
	case *ast.CompositeLit:
		return val{rset{}, c.evalLit(x).all()}
	}
	// not addressable (e.g. a call result used by value): a temporary
	return val{rset{}, c.eval(e).all()}
}

func (c *ctx) addrOfIdent(id *ast.Ident) val {
	r := newVal()
	obj := c.objOf(id)
	v, ok := obj.(*types.Var)
	if !ok {
		return r
	}
	if g, ok := globalName(v); ok {
		r.d.add(root{k: 'G', s: g})
		return r
	}
	if v.Pkg() == nil || !inLibrary(v.Pkg()) {
		return r
	}
	r.d.add(c.a.lroot(v))
	return r
}

func funcLitReturns(fl *ast.FuncLit) []*ast.ReturnStmt {
	var rs []*ast.ReturnStmt
	ast.Inspect(fl.Body, func(n ast.Node) bool {
		switch x := n.(type) {
		case *ast.FuncLit:
			return false
		case *ast.ReturnStmt:
			rs = append(rs, x)
		}
		return true
	})
	return rs
}

// ---- calls -----------------------------------------------------------------

const (
	cConv = iota
	cBuiltin
	cLib
	cExt
	cDyn
)

type callee struct {
	kind    int
	name    string // builtin
	fn      *fnInfo
	tf      *types.Func
	sel     *types.Selection // method call x.m(...)
	selExpr *ast.SelectorExpr
	iface   bool // interface method call
}

func unparen(e ast.Expr) ast.Expr {
	for {
		p, ok := e.(*ast.ParenExpr)
		if !ok {
			return e
		}
		e = p.X
	}
}

func (c *ctx) funcCallee(tf *types.Func) callee {
	if inLibrary(tf.Pkg()) {
		if fn := c.a.fns[c.a.posKey(tf.Pos())]; fn != nil {
			return callee{kind: cLib, fn: fn, tf: tf}
		}
		if c.a.debug {
			fmt.Fprintf(os.Stderr, "UNRESOLVED library callee %s (%s)\n", tf.FullName(), c.a.posKey(tf.Pos()))
		}
	}
	return callee{kind: cExt, tf: tf}
}

func (c *ctx) resolveCallee(call *ast.CallExpr) callee {
	fun := unparen(call.Fun)
	if tv, ok := c.p.info.Types[fun]; ok && tv.IsType() {
		return callee{kind: cConv}
	}
	switch f := fun.(type) {
	case *ast.Ident:
		switch o := c.p.info.Uses[f].(type) {
		case *types.Builtin:
			return callee{kind: cBuiltin, name: o.Name()}
		case *types.Func:
			return c.funcCallee(o)
		}
	case *ast.SelectorExpr:
		if sel := c.p.info.Selections[f]; sel != nil {
			if sel.Kind() == types.MethodVal {
				tf, _ := sel.Obj().(*types.Func)
				if tf == nil {
					return callee{kind: cDyn}
				}
				sig := tf.Type().(*types.Signature)
				if sig.Recv() != nil && types.IsInterface(sig.Recv().Type()) {
					return callee{kind: cDyn, iface: true, sel: sel, selExpr: f, tf: tf}
				}
				cl := c.funcCallee(tf)
				cl.sel, cl.selExpr = sel, f
				return cl
			}
			return callee{kind: cDyn}
		}
		if tf, ok := c.p.info.Uses[f.Sel].(*types.Func); ok {
			return c.funcCallee(tf)
		}
	}
	return callee{kind: cDyn}
}

// recvArg: the receiver value as the method gets it (pointer or copy), following embedded fields.
func (c *ctx) recvArg(x *ast.SelectorExpr, sel *types.Selection) val {
	tf, _ := sel.Obj().(*types.Func)
	t := c.typeOf(x.X)
	if t == nil || tf == nil {
		return c.eval(x.X)
	}
	sig := tf.Type().(*types.Signature)
	idxs := sel.Index()
	if len(idxs) == 1 && types.IsInterface(t) {
		return c.eval(x.X)
	}
	var loc val
	if et, isp := deptr(t); isp {
		loc, t = c.eval(x.X), et
	} else {
		loc = c.addrOf(x.X)
	}
	for _, idx := range idxs[:len(idxs)-1] {
		st, ok := t.Underlying().(*types.Struct)
		if !ok {
			break
		}
		f := st.Field(idx)
		fv := c.fieldVal(f)
		t = f.Type()
		if et, isp := deptr(t); isp {
			loc, t = c.a.derefField(loc, c.fieldKey(f)), et
		} else {
			loc = loc.union(val{rset{}, fv.all()})
		}
	}
	if types.IsInterface(t) { // method of an embedded interface
		return c.a.deref(loc)
	}
	if sig.Recv() != nil {
		if _, isp := sig.Recv().Type().(*types.Pointer); isp {
			return loc
		}
	}
	return c.a.deref(loc)
}

// libArgs: actual arguments aligned with fn.params (receiver first).
func (c *ctx) libArgs(call *ast.CallExpr, cl callee) []val {
	fn := cl.fn
	as := make([]val, len(fn.params))
	for i := range as {
		as[i] = newVal()
	}
	off := 0
	if fn.hasRecv {
		off = 1
		if cl.sel != nil {
			as[0] = c.recvArg(cl.selExpr, cl.sel)
		}
	}
	np := len(fn.params) - off
	if len(call.Args) == 1 && np > 1 {
		if inner, ok := unparen(call.Args[0]).(*ast.CallExpr); ok { // f(g()) with a multi-value g
			rs := c.evalCall(inner)
			for j := 0; j < np && j < len(rs); j++ {
				as[off+j] = rs[j]
			}
			return as
		}
	}
	for j := 0; j < np; j++ {
		if fn.variadic && j == np-1 {
			if call.Ellipsis.IsValid() && j < len(call.Args) {
				as[off+j] = c.eval(call.Args[j])
			} else {
				s := rset{}
				for _, ae := range call.Args[min(j, len(call.Args)):] {
					for k := range c.eval(ae).all() {
						s.add(k)
					}
				}
				as[off+j] = val{rset{}, s}
			}
		} else if j < len(call.Args) {
			as[off+j] = c.eval(call.Args[j])
		}
	}
	return as
}

func (c *ctx) nResults(call *ast.CallExpr) int {
	t := c.typeOf(call)
	if t == nil {
		return 0
	}
	if tu, ok := t.(*types.Tuple); ok {
		return tu.Len()
	}
	return 1
}

func (c *ctx) resultType(call *ast.CallExpr, i int) types.Type {
	t := c.typeOf(call)
	if tu, ok := t.(*types.Tuple); ok {
		return tu.At(i).Type()
	}
	return t
}

// evalCall: abstract values of the results of a call.
func (c *ctx) evalCall(call *ast.CallExpr) []val {
	n := c.nResults(call)
	res := make([]val, n)
	for i := range res {
		res[i] = newVal()
	}
	if n == 0 {
		return res
	}
	cl := c.resolveCallee(call)
	switch cl.kind {
	case cConv:
		if len(call.Args) == 1 {
			res[0] = c.eval(call.Args[0])
		}
	case cBuiltin:
		if cl.name == "append" && len(call.Args) >= 1 {
			a0 := c.eval(call.Args[0])
			r := newVal().union(a0)
			for j, ae := range call.Args[1:] {
				v := c.eval(ae)
				if call.Ellipsis.IsValid() && j == len(call.Args)-2 {
					v = c.a.deref(v)
				}
				for k := range v.all() {
					r.i.add(k)
				}
			}
			res[0] = r
		}
	case cLib:
		as := c.libArgs(call, cl)
		for i := 0; i < n && i < len(cl.fn.R); i++ {
			if !hasPtr(c.resultType(call, i)) {
				continue
			}
			R := cl.fn.R[i]
			res[i] = val{c.subst(R.d, cl.fn, as), c.subst(R.i, cl.fn, as)}
		}
	default: // external or dynamic callee: the results may alias anything reachable from the arguments
		s := rset{}
		for _, ae := range call.Args {
			for k := range c.a.reachAll(c.eval(ae)) {
				s.add(k)
			}
		}
		if cl.sel != nil {
			for k := range c.a.reachAll(c.recvArg(cl.selExpr, cl.sel)) {
				s.add(k)
			}
		} else if cl.kind == cDyn {
			for k := range c.a.reachAll(c.eval(call.Fun)) {
				s.add(k)
			}
		}
		for i := 0; i < n; i++ {
			if hasPtr(c.resultType(call, i)) {
				res[i] = val{s, s}
			}
		}
	}
	return res
}

func (c *ctx) subst(s rset, fn *fnInfo, as []val) rset {
	r := rset{}
	for k := range s {
		if (k.k == 'P' || k.k == 'Q') && k.s == fn.key && k.i < len(as) {
			if k.k == 'P' {
				for x := range as[k.i].d {
					r.add(x)
				}
			} else {
				for x := range c.a.below(as[k.i], k.f) {
					r.add(x)
				}
			}
			continue
		}
		r.add(k)
	}
	return r
}

// External functions that only read their operands (they at most call String/Error/Format
// methods on them). Everything else outside the library is assumed to write through every
// pointer/slice/map argument.
var readOnlyExternal = map[string]bool{
	"fmt.Sprintf": true, "fmt.Sprint": true, "fmt.Sprintln": true, "fmt.Errorf": true,
}

// callEvent: the write effects of a call.
func (c *ctx) callEvent(call *ast.CallExpr) {
	cl := c.resolveCallee(call)
	pos := call.Pos()
	switch cl.kind {
	case cConv:
	case cBuiltin:
		switch cl.name {
		case "append", "delete", "clear", "close":
			if len(call.Args) >= 1 {
				c.writeEvent(c.eval(call.Args[0]).d, kindD, pos, cl.name)
			}
		case "copy":
			if len(call.Args) == 2 {
				pv := c.eval(call.Args[0])
				c.writeEvent(pv.d, kindD, pos, "copy")
				if src := c.a.deref(c.eval(call.Args[1])); !src.empty() {
					c.store(pv, call.Args[0], false, src, pos)
				}
			}
		}
	case cLib:
		as := c.libArgs(call, cl)
		for wk, kind := range cl.fn.W {
			if wk.param >= len(as) {
				continue
			}
			var targets rset
			if wk.level == 1 {
				targets = as[wk.param].d
			} else {
				targets = c.a.below(as[wk.param], wk.field)
			}
			if cl.fn.hasRecv && wk.param == 0 && cl.sel != nil {
				kind = kindM
			}
			c.writeEvent(targets, kind, pos, "call "+cl.fn.qual)
		}
		for j, v := range as {
			if v.empty() {
				continue
			}
			pk := root{k: 'P', s: cl.fn.key, i: j}
			pa := c.a.PA[pk]
			if pa == nil {
				nv := newVal()
				pa = &nv
				c.a.PA[pk] = pa
			}
			c.a.merge(pa, c.a.flatten(v))
		}
	default:
		if cl.tf != nil && readOnlyExternal[cl.tf.FullName()] {
			break
		}
		if c.a.debug {
			nm := "dynamic"
			if cl.tf != nil {
				nm = cl.tf.FullName()
			}
			for _, ae := range call.Args {
				if isPSM(c.typeOf(ae)) {
					fmt.Fprintf(os.Stderr, "EXTARG %s in %s %s\n", nm, c.a.fset.Position(pos), fmtVal(c.eval(ae)))
				}
			}
		}
		for _, ae := range call.Args {
			if isPSM(c.typeOf(ae)) {
				c.writeEvent(c.a.reachAll(c.eval(ae)), kindD, pos, "unknown/external callee")
			}
		}
		if cl.kind == cExt && cl.sel != nil {
			sig := cl.tf.Type().(*types.Signature)
			if sig.Recv() != nil && isPSM(sig.Recv().Type()) {
				c.writeEvent(c.a.reachAll(c.recvArg(cl.selExpr, cl.sel)), kindD, pos, "external method "+cl.tf.Name())
			}
		}
	}
}

// ---- events ----------------------------------------------------------------

// resolveRoots calls f for every package-level variable and (unless expandOwn) every own
// parameter root in the set; foreign parameter roots (they arrive through struct fields) and,
// with expandOwn, own ones are replaced by the actual arguments of all call sites (PA).
func (c *ctx) resolveRoots(set rset, expandOwn bool, f func(r root)) {
	seen := rset{}
	var work []root
	push := func(s rset) {
		for r := range s {
			if seen.add(r) {
				work = append(work, r)
			}
		}
	}
	push(set)
	for len(work) > 0 {
		r := work[len(work)-1]
		work = work[:len(work)-1]
		switch r.k {
		case 'G':
			f(r)
		case 'P', 'Q':
			if !expandOwn && c.fn != nil && r.s == c.fn.key {
				f(r)
				continue
			}
			pa := c.a.PA[root{k: 'P', s: r.s, i: r.i}]
			if pa == nil {
				continue
			}
			if r.k == 'P' {
				push(pa.d)
			} else {
				push(c.a.below(*pa, r.f))
			}
		}
	}
}

func (c *ctx) report(m map[string]string, name string, pos token.Pos, why string) {
	if _, ok := m[name]; !ok {
		m[name] = c.a.fset.Position(pos).String() + " (" + why + ")"
	}
}

func (c *ctx) writeEvent(targets rset, kind uint8, pos token.Pos, why string) {
	if len(targets) == 0 {
		return
	}
	c.resolveRoots(targets, false, func(r root) {
		switch r.k {
		case 'G':
			if c.exempt {
				return
			}
			if kind&kindD != 0 {
				c.report(c.a.mutated, r.s, pos, why)
			}
			if kind&kindM != 0 {
				c.report(c.a.mcalled, r.s, pos, why)
			}
		case 'P', 'Q':
			wk := wkey{param: r.i, level: 1}
			if r.k == 'Q' {
				wk.level, wk.field = 2, r.f
			}
			if c.fn.W[wk]|kind != c.fn.W[wk] {
				c.fn.W[wk] |= kind
				c.a.changed = true
			}
		}
	})
}

// escapeEvent: pointers into the given roots are stored where the analysis does not follow them.
func (c *ctx) escapeEvent(v val, pos token.Pos, why string) {
	if c.exempt {
		return
	}
	c.resolveRoots(c.a.reachAll(v), true, func(r root) {
		if r.k == 'G' {
			c.report(c.a.mutated, r.s+"(&)", pos, why)
		}
	})
}

// bases: the local variables an expression is computed from.
func (c *ctx) bases(e ast.Expr, out map[types.Object]bool) {
	switch x := e.(type) {
	case *ast.Ident:
		if v, ok := c.objOf(x).(*types.Var); ok && !v.IsField() {
			if _, g := globalName(v); !g && inLibrary(v.Pkg()) {
				out[v] = true
			}
		}
	case *ast.ParenExpr:
		c.bases(x.X, out)
	case *ast.SelectorExpr:
		if c.p.info.Selections[x] != nil {
			c.bases(x.X, out)
		}
	case *ast.IndexExpr:
		c.bases(x.X, out)
	case *ast.SliceExpr:
		c.bases(x.X, out)
	case *ast.StarExpr:
		c.bases(x.X, out)
	case *ast.UnaryExpr:
		c.bases(x.X, out)
	case *ast.TypeAssertExpr:
		c.bases(x.X, out)
	case *ast.CallExpr:
		c.bases(x.Fun, out)
		for _, ae := range x.Args {
			c.bases(ae, out)
		}
	case *ast.CompositeLit:
		for _, el := range x.Elts {
			if kv, ok := el.(*ast.KeyValueExpr); ok {
				el = kv.Value
			}
			c.bases(el, out)
		}
	}
}

func (c *ctx) lastField(e ast.Expr) *types.Var {
	if s, ok := unparen(e).(*ast.SelectorExpr); ok {
		if sel := c.p.info.Selections[s]; sel != nil && sel.Kind() == types.FieldVal {
			f, _ := sel.Obj().(*types.Var)
			return f
		}
	}
	return nil
}

// store: the pointer-carrying value rhs is written into the memory pv points to; path is the
// expression the location was computed from (isLoc: path denotes the location itself, else a
// pointer to it).
func (c *ctx) store(pv val, path ast.Expr, isLoc bool, rhs val, pos token.Pos) {
	a := c.a
	nonLocal := false
	for r := range pv.d {
		switch r.k {
		case 'L':
			if obj := a.lobj[r.s]; obj != nil {
				a.merge(a.lval(obj), rhs)
			}
		case 'G':
			ga := a.GA[r.s]
			if ga == nil {
				nv := newVal()
				ga = &nv
				a.GA[r.s] = ga
			}
			a.merge(ga, a.flatten(rhs))
		default:
			nonLocal = true
		}
	}
	var f *types.Var
	if isLoc {
		f = c.lastField(path)
	}
	if f != nil {
		fk := c.fieldKey(f)
		fa := a.FA[fk]
		if fa == nil {
			nv := newVal()
			fa = &nv
			a.FA[fk] = fa
		}
		a.merge(fa, a.flatten(rhs))
	} else if nonLocal {
		c.escapeEvent(rhs, pos, "stored into memory reachable from a parameter")
	}
	// contents of anonymous (freshly allocated) memory are remembered in the variables the
	// location was computed from; field stores are already covered by the field cell
	if _, plain := unparen(path).(*ast.Ident); f == nil && (!plain || !isLoc) {
		bs := map[types.Object]bool{}
		c.bases(path, bs)
		// everything the base variables were derived from can reach that memory too
		var work []types.Object
		for b := range bs {
			work = append(work, b)
		}
		for len(work) > 0 {
			b := work[len(work)-1]
			work = work[:len(work)-1]
			for d := range a.derived[b] {
				if !bs[d] {
					bs[d] = true
					work = append(work, d)
				}
			}
		}
		content := val{rset{}, rhs.all()}
		for b := range bs {
			a.merge(a.lval(b), content)
		}
	}
}

// assign: lhs = <value rhs> (rhsExpr may be nil)
func (c *ctx) assign(lhs ast.Expr, rhs val, rhsExpr ast.Expr, pos token.Pos) {
	if id, ok := unparen(lhs).(*ast.Ident); ok {
		if id.Name == "_" || c.objOf(id) == nil {
			return
		}
		if v, ok := c.objOf(id).(*types.Var); ok && rhsExpr != nil {
			if _, g := globalName(v); !g {
				bs := map[types.Object]bool{}
				c.bases(rhsExpr, bs)
				delete(bs, v)
				if len(bs) > 0 {
					if c.a.derived[v] == nil {
						c.a.derived[v] = map[types.Object]bool{}
					}
					for b := range bs {
						c.a.derived[v][b] = true
					}
				}
			}
		}
	}
	pv := c.addrOf(lhs)
	c.writeEvent(pv.d, kindD, pos, "assignment")
	if t := c.typeOf(lhs); t != nil && !hasPtr(t) {
		return
	}
	if rhs.empty() {
		return
	}
	c.store(pv, lhs, true, rhs, pos)
}

func (c *ctx) assignList(lhs []ast.Expr, rhs []ast.Expr, pos token.Pos) {
	if len(lhs) == len(rhs) {
		for i := range lhs {
			c.assign(lhs[i], c.eval(rhs[i]), rhs[i], pos)
		}
		return
	}
	if len(rhs) != 1 {
		return
	}
	if call, ok := unparen(rhs[0]).(*ast.CallExpr); ok {
		rs := c.evalCall(call)
		for i := range lhs {
			if i < len(rs) {
				c.assign(lhs[i], rs[i], rhs[0], pos)
			}
		}
		return
	}
	c.assign(lhs[0], c.eval(rhs[0]), rhs[0], pos) // v, ok := m[k] / <-ch / x.(T)
}

// walk generates the events of all statements and expressions below n.
func (c *ctx) walk(root ast.Node) {
	var stack []ast.Node
	info := c.p.info
	callFuns := map[ast.Expr]bool{}
	ast.Inspect(root, func(n ast.Node) bool {
		if n == nil {
			stack = stack[:len(stack)-1]
			return true
		}
		inLit := false
		for _, s := range stack {
			if _, ok := s.(*ast.FuncLit); ok {
				inLit = true
			}
		}
		stack = append(stack, n)
		switch x := n.(type) {
		case *ast.AssignStmt:
			if x.Tok == token.ASSIGN || x.Tok == token.DEFINE {
				c.assignList(x.Lhs, x.Rhs, x.Pos())
			} else {
				for _, l := range x.Lhs {
					c.writeEvent(c.addrOf(l).d, kindD, x.Pos(), "op-assignment")
				}
			}
		case *ast.IncDecStmt:
			c.writeEvent(c.addrOf(x.X).d, kindD, x.Pos(), "inc/dec")
		case *ast.ValueSpec:
			if len(x.Values) > 0 {
				lhs := make([]ast.Expr, len(x.Names))
				for i, nm := range x.Names {
					lhs[i] = nm
				}
				c.assignList(lhs, x.Values, x.Pos())
			}
		case *ast.RangeStmt:
			xt := c.typeOf(x.X)
			if xt == nil {
				break
			}
			xv := c.eval(x.X)
			var kv, ev val
			switch u := xt.Underlying().(type) {
			case *types.Array:
				ev = xv
			case *types.Slice, *types.Chan:
				ev = c.a.deref(xv)
			case *types.Map:
				ev = c.a.deref(xv)
				kv = ev
			case *types.Pointer:
				_ = u
				ev = c.a.deref(xv)
			default:
				ev = newVal()
			}
			if _, isChan := xt.Underlying().(*types.Chan); isChan {
				kv = ev // the single iteration variable of a channel range is the element
			}
			if kv.d == nil {
				kv = newVal()
			}
			for i, le := range []ast.Expr{x.Key, x.Value} {
				if le == nil {
					continue
				}
				v := kv
				if i == 1 {
					v = ev
				}
				if t := c.typeOf(le); t != nil && !hasPtr(t) {
					v = newVal()
				}
				c.assign(le, v, x.X, x.Pos())
			}
		case *ast.SendStmt:
			pv := c.eval(x.Chan)
			c.writeEvent(pv.d, kindD, x.Pos(), "channel send")
			if v := c.eval(x.Value); !v.empty() {
				c.store(pv, x.Chan, false, v, x.Pos())
			}
		case *ast.ReturnStmt:
			if inLit || c.fn == nil {
				break
			}
			fn := c.fn
			if len(x.Results) == 0 {
				for i, ro := range fn.results {
					if ro != nil && i < len(fn.R) && hasPtr(ro.Type()) {
						c.a.merge(fn.R[i], c.a.flatten(*c.a.lval(ro)))
					}
				}
			} else if len(x.Results) == len(fn.R) {
				for i, re := range x.Results {
					c.a.merge(fn.R[i], c.a.flatten(c.eval(re)))
				}
			} else if len(x.Results) == 1 {
				if call, ok := unparen(x.Results[0]).(*ast.CallExpr); ok {
					for i, v := range c.evalCall(call) {
						if i < len(fn.R) {
							c.a.merge(fn.R[i], c.a.flatten(v))
						}
					}
				}
			}
		case *ast.CallExpr:
			callFuns[unparen(x.Fun)] = true
			c.callEvent(x)
		case *ast.SelectorExpr:
			// a method value x.m that is not called on the spot: its later calls go through a
			// function value, so the receiver effects are accounted for here
			if sel := info.Selections[x]; sel != nil && sel.Kind() == types.MethodVal && !callFuns[x] {
				c.callEvent(&ast.CallExpr{Fun: x, Lparen: x.End(), Rparen: x.End()})
			}
		case *ast.CompositeLit:
			t := c.typeOf(x)
			if t == nil {
				break
			}
			t, _ = deptr(t)
			st, ok := t.Underlying().(*types.Struct)
			if !ok {
				break
			}
			for i, el := range x.Elts {
				var f *types.Var
				if kv, ok := el.(*ast.KeyValueExpr); ok {
					if id, ok := kv.Key.(*ast.Ident); ok {
						f, _ = info.Uses[id].(*types.Var)
					}
					el = kv.Value
				} else if i < st.NumFields() {
					f = st.Field(i)
				}
				if f == nil || !hasPtr(f.Type()) {
					continue
				}
				if v := c.eval(el); !v.empty() {
					fk := c.fieldKey(f)
					fa := c.a.FA[fk]
					if fa == nil {
						nv := newVal()
						fa = &nv
						c.a.FA[fk] = fa
					}
					c.a.merge(fa, c.a.flatten(v))
				}
			}
		case *ast.TypeSwitchStmt:
			as, ok := x.Assign.(*ast.AssignStmt)
			if !ok || len(as.Rhs) != 1 {
				break
			}
			v := c.eval(as.Rhs[0])
			if v.empty() {
				break
			}
			for _, cc := range x.Body.List {
				if obj := info.Implicits[cc]; obj != nil && hasPtr(obj.Type()) {
					c.a.merge(c.a.lval(obj), v)
				}
			}
		}
		return true
	})
}

// ---- driver ----------------------------------------------------------------

// fromAPI: may parameter idx of function fnKey be bound (through any chain of calls inside the library) to an
// argument that an exported function or method received from its caller?
func (a *analysis) fromAPI(fnKey string, idx int) bool {
	type node struct {
		s string
		i int
	}
	seen := map[node]bool{}
	work := []node{{fnKey, idx}}
	for len(work) > 0 {
		n := work[len(work)-1]
		work = work[:len(work)-1]
		if seen[n] {
			continue
		}
		seen[n] = true
		if fn := a.fns[n.s]; fn != nil && fn.decl.Name.IsExported() && !(fn.hasRecv && n.i == 0) {
			return true
		}
		pa := a.PA[root{k: 'P', s: n.s, i: n.i}]
		if a.debug {
			fmt.Fprintf(os.Stderr, "FROMAPI visit %s #%d pa=%v\n", n.s, n.i, pa != nil)
		}
		if pa == nil {
			continue
		}
		for _, set := range []rset{pa.d, pa.i} {
			for r := range set {
				if r.k == 'P' || r.k == 'Q' {
					work = append(work, node{r.s, r.i})
				}
			}
		}
	}
	return false
}

func mayWriteAnalysis(fset *token.FileSet, pkgs []*pkgInfo) (mutated, methodCalled []string, an *analysis) {
	a := &analysis{fset: fset, fns: map[string]*fnInfo{}, local: map[types.Object]*val{}, lobj: map[string]types.Object{},
		derived: map[types.Object]map[types.Object]bool{}, FA: map[string]*val{}, GA: map[string]*val{}, PA: map[root]*val{},
		mutated: map[string]string{}, mcalled: map[string]string{}, debug: os.Getenv("GOSYNC_DEBUG") != ""}
	for _, p := range pkgs {
		for _, f := range p.files {
			for _, decl := range f.Decls {
				fd, ok := decl.(*ast.FuncDecl)
				if !ok || fd.Body == nil {
					continue
				}
				obj, _ := p.info.Defs[fd.Name].(*types.Func)
				if obj == nil {
					continue
				}
				sig := obj.Type().(*types.Signature)
				fn := &fnInfo{key: a.posKey(obj.Pos()), qual: shortPkg(p.path) + "." + fd.Name.Name, decl: fd, p: p,
					W: map[wkey]uint8{}, variadic: sig.Variadic(), exempt: fd.Name.Name == "init" && fd.Recv == nil}
				addFields := func(fl *ast.FieldList, dst *[]types.Object) {
					if fl == nil {
						return
					}
					for _, fld := range fl.List {
						if len(fld.Names) == 0 {
							*dst = append(*dst, nil)
						}
						for _, nm := range fld.Names {
							*dst = append(*dst, p.info.Defs[nm]) // nil for "_"
						}
					}
				}
				if fd.Recv != nil {
					fn.hasRecv = true
					addFields(fd.Recv, &fn.params)
					if len(fn.params) == 0 {
						fn.params = append(fn.params, nil)
					}
				}
				addFields(fd.Type.Params, &fn.params)
				addFields(fd.Type.Results, &fn.results)
				for i := 0; i < sig.Results().Len(); i++ {
					nv := newVal()
					fn.R = append(fn.R, &nv)
				}
				for i, po := range fn.params {
					if po != nil && hasPtr(po.Type()) {
						v := a.lval(po)
						v.d.add(root{k: 'P', s: fn.key, i: i})
						v.i.add(root{k: 'Q', s: fn.key, i: i})
					}
				}
				a.fns[fn.key] = fn
				a.order = append(a.order, fn)
			}
		}
	}
	for iter := 0; iter < 100; iter++ {
		a.changed = false
		for _, p := range pkgs {
			c := &ctx{a: a, p: p, exempt: true}
			for _, f := range p.files {
				for _, decl := range f.Decls {
					if gd, ok := decl.(*ast.GenDecl); ok && gd.Tok == token.VAR {
						c.walk(gd) // package-level initialisers: aliasing only, no mutation reports
					}
				}
			}
		}
		for _, fn := range a.order {
			c := &ctx{a: a, p: fn.p, fn: fn, exempt: fn.exempt}
			c.walk(fn.decl.Body)
		}
		if !a.changed {
			break
		}
	}
	if a.debug {
		for _, fn := range a.order {
			var ws []string
			for wk, k := range fn.W {
				ws = append(ws, fmt.Sprintf("p%d/L%d%s:%d", wk.param, wk.level, fieldTail(wk.field), k))
			}
			sort.Strings(ws)
			var rs []string
			for i, r := range fn.R {
				if !r.empty() {
					rs = append(rs, fmt.Sprintf("r%d=%s", i, fmtVal(*r)))
				}
			}
			if len(ws)+len(rs) > 0 {
				fmt.Fprintf(os.Stderr, "FN %s W=%v R=%v\n", fn.qual, ws, rs)
			}
		}
		for n, w := range a.mutated {
			fmt.Fprintf(os.Stderr, "MUTATED %s at %s\n", n, w)
		}
		for n, w := range a.mcalled {
			fmt.Fprintf(os.Stderr, "METHOD_CALLED %s at %s\n", n, w)
		}
	}
	for n := range a.mutated {
		mutated = append(mutated, n)
	}
	for n := range a.mcalled {
		methodCalled = append(methodCalled, n)
	}
	an = a
	return
}

func fmtVal(v val) string {
	f := func(s rset) string {
		var l []string
		for r := range s {
			if r.k == 'G' {
				l = append(l, r.s)
			} else {
				l = append(l, fmt.Sprintf("%c%d%s", r.k, r.i, fieldTail(r.f)))
			}
		}
		sort.Strings(l)
		return strings.Join(l, ",")
	}
	return "{" + f(v.d) + "|" + f(v.i) + "}"
}

func fieldTail(fk string) string {
	if fk == "" {
		return ""
	}
	return "." + filepath.Base(fk)
}
