#!/usr/bin/env python3
"""Second self-test of the specification oracles: CODEWORD-level damage that keeps the symbol Reed-Solomon-valid
(what a buggy encoder produces: wrong pad / filler values with correct check words).  DataMatrix: every value 0..255
in the place of each pad codeword of small symbols, check words recomputed with the model, symbol rendered with the
model, read by the reference reader: only the correct pad value may be accepted."""
import sys
sys.path.insert(0, "/verif/lib")
from common import *
import c02


def main():
    model = build_model(c02)
    run1 = lambda l: run_lines(model, [l], 1)[0]
    bad = total = 0
    for content, idx, cap in ((b"a", 0, 3), (b"ab", 1, 5), (b"abc", 2, 8), (b"Hello", 3, 12), (b"a" * 23, 6, 30)):
        data = bytes.fromhex(run1("dmtext " + content.hex()))
        padded = bytes.fromhex(run1("dmpad %d %s" % (cap, data.hex())))
        first_pad = len(data)
        lines, meta = [], []
        for pos in range(first_pad, cap):
            for v in range(256):
                if v == padded[pos]:
                    continue
                d = bytearray(padded)
                d[pos] = v
                meta.append((pos, v, bytes(d)))
        eccs = run_lines(model, ["dmecc %d %s" % (idx, m[2].hex()) for m in meta], NCPU)
        cws = [bytes.fromhex(e) for e in eccs]        # dmecc prints data + check codewords
        rend = run_lines(model, ["dmrender %d %s" % (idx, c.hex()) for c in cws], NCPU)
        reads = run_lines(model, ["dmdec %s %s" % (r.split(" ")[-1], content.hex()) for r in rend], NCPU)
        for (pos, v, _), rd in zip(meta, reads):
            total += 1
            f = rd.split()
            if f[0] == "T" and f[1] == content.hex():
                bad += 1
                print("ACCEPTED: content %r, codeword %d replaced by %d: %s" % (content, pos, v, rd[:60]))
    print("DataMatrix pad substitutions judged: %d, wrongly accepted: %d" % (total, bad))
    # QR: every value in the place of the terminator / pad bytes of a version 1-L byte-mode symbol ("Hello")
    import c01
    qm = build_model(c01)
    q1 = lambda l: run_lines(qm, [l], 1)[0]
    bits = q1("qrbits 0 3 48656c6c6f").split()[-1]
    data = bytes(int(bits[i:i + 8], 2) for i in range(0, len(bits), 8))
    subs = [(pos, v) for pos in range(7, len(data)) for v in range(256) if v != data[pos]]
    ils = run_lines(qm, ["qrblocks 1 0 " + (data[:p] + bytes([v]) + data[p + 1:]).hex() for p, v in subs], NCPU)
    rows = run_lines(qm, ["qrrender 1 0 " + il.split()[0] for il in ils], NCPU)
    reads = run_lines(qm, ["qrdec %s 0 3 48656c6c6f" % r.split("|")[0] for r in rows], NCPU)
    qbad = 0
    for (p, v), o in zip(subs, reads):
        kv = dict(x.split("=", 1) for x in o.split() if "=" in x)
        if o.startswith("OK") and kv.get("valid") == "1" and kv.get("pad") == "1" and kv.get("rem") == "1" and o.split()[-1] == "48656c6c6f":
            qbad += 1
            print("ACCEPTED: QR data codeword %d replaced by %d" % (p, v))
    print("QR terminator / pad substitutions judged: %d, wrongly accepted: %d" % (len(subs), qbad))
    return 1 if bad or qbad else 0


if __name__ == "__main__":
    sys.exit(main())
