#!/bin/bash
# False-alarm trial of a behaviour-preserving change, isolated from /verif and /repo:
#   tools/benign_run.sh <patch.diff> <name> <PID> [<PID> ...]
# copies /verif to /tmp/vb_<name>, makes a scratch worktree of /repo HEAD at /tmp/vbr_<name>, applies the
# patch there and runs the copy's quick checks for the listed properties; prints one line per check.
set -u
PATCH=$(readlink -f "$1"); NAME=$2; shift 2
VM=/tmp/vb_$NAME; VR=/tmp/vbr_$NAME
rm -rf "$VM"; git -C /repo worktree remove --force "$VR" 2>/dev/null; rm -rf "$VR"
git -C /repo worktree add -q --detach "$VR" HEAD || exit 2
if [ "$PATCH" != "/dev/null" ]; then git -C "$VR" apply "$PATCH" || { echo "patch does not apply"; git -C /repo worktree remove --force "$VR"; exit 2; }; fi
rsync -a --exclude .git --exclude 'build/*.lock' /verif/ "$VM"/
sed -i "s#=> /repo#=> $VR#" "$VM"/go/impl/go.mod "$VM"/go/gotab/go.mod
cd "$VM"
for PID in "$@"; do
  out=$(VERIF_REPO="$VR" timeout 2400 ./check "$PID" --tier quick 2>&1); rc=$?
  line=$(echo "$out" | grep VIOLATION | head -1)
  echo "$NAME $PID rc=$rc $line"
  if [ $rc -ne 0 ]; then mkdir -p /verif/build/benign; cp "$VM"/replays/$PID-quick-*.json /verif/build/benign/$NAME-$PID.json 2>/dev/null; fi
done
git -C /repo worktree remove --force "$VR"; rm -rf "$VM"
