#!/bin/bash
# Isolated trial of a seeded change while other work is going on in /verif and /repo:
#   tools/mutant_run.sh <patch.diff> <PID> [tier]
# copies /verif to /tmp/vm_<PID>, makes a scratch worktree of /repo HEAD (+ the hook files)
# at /tmp/vr_<PID>, applies the patch there and runs the copy's ./check against it.
# The official records in seeded/<id>/meta.json come from running the check in /verif against
# /repo itself (git -C /repo apply; ./check; git -C /repo checkout -- .).
set -u
PATCH=$(readlink -f "$1"); PID=$2; TIER=${3:-quick}
VM=/tmp/vm_$PID; VR=/tmp/vr_$PID
rm -rf "$VM"; git -C /repo worktree remove --force "$VR" 2>/dev/null; rm -rf "$VR"
git -C /repo worktree add -q --detach "$VR" HEAD || exit 2
# untracked hook files of /repo (not yet committed)
(cd /repo && git ls-files --others --exclude-standard | grep 'verif_' | while read f; do mkdir -p "$VR/$(dirname $f)"; cp "$f" "$VR/$f"; done)
if [ "$PATCH" != "/dev/null" ]; then git -C "$VR" apply "$PATCH" || { echo "patch does not apply"; exit 2; }; fi
rsync -a --exclude .git --exclude 'build/*.lock' /verif/ "$VM"/
sed -i "s#=> /repo#=> $VR#" "$VM"/go/impl/go.mod "$VM"/go/gotab/go.mod
cd "$VM" && VERIF_REPO="$VR" timeout 1800 ./check "$PID" --tier "$TIER"; rc=$?
echo "exit=$rc"
[ -n "${KEEP:-}" ] || { git -C /repo worktree remove --force "$VR"; rm -rf "$VM"; }
exit $rc
