#!/bin/bash
# tools/devcopy.sh <name>: isolated development copy of /verif at /tmp/dev_<name> working against its own
# scratch worktree of /repo HEAD at /tmp/devr_<name> (so work can go on while /repo is being used).
# Run checks there with:  cd /tmp/dev_<name> && VERIF_REPO=/tmp/devr_<name> ./check Cxx
set -u
N=$1; VM=/tmp/dev_$N; VR=/tmp/devr_$N
rm -rf "$VM"; git -C /repo worktree remove --force "$VR" 2>/dev/null; rm -rf "$VR"
git -C /repo worktree add -q --detach "$VR" HEAD || exit 2
rsync -a --exclude .git --exclude 'build/*.lock' --exclude replays /verif/ "$VM"/
sed -i "s#=> /repo#=> $VR#" "$VM"/go/impl/go.mod "$VM"/go/gotab/go.mod
echo "$VM (repo: $VR)"
