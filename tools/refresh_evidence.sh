#!/bin/bash
# run every claimed quick check on the (clean) tree and validate evidence + manifest
cd /verif
if git -C /repo status --short | grep -v '^??' | grep -q .; then echo "REFUSING: /repo has modified tracked files"; git -C /repo status --short | grep -v '^??'; exit 2; fi
fail=0
for p in $(python3 -c "import json; print(' '.join(c['property_id'] for c in json.load(open('MANIFEST.json'))['checks']))"); do
  s=$(date +%s); out=$(./check $p --tier quick 2>&1); rc=$?; e=$(( $(date +%s) - s ))
  echo "$p rc=$rc ${e}s $(echo "$out" | grep -c VIOLATION) violations"
  [ $rc -ne 0 ] && { fail=1; echo "$out" | tail -3; }
done
python3-vt - <<'PY'
import json, jsonschema
m = json.load(open('/verif/MANIFEST.json'))
jsonschema.validate(m, json.load(open('/root/.vp/MANIFEST.schema.json')))
es = json.load(open('/root/.vp/EVIDENCE.schema.json'))
for c in m['checks']:
    e = json.load(open(c['evidence_file']))
    jsonschema.validate(e, es)
    cov = e['coverage']
    assert cov['discharged'] == cov['obligations'] >= 1, (c['property_id'], cov['discharged'], cov['obligations'])
    assert e.get('violations', 0) == 0, c['property_id']
print("manifest + evidence valid for", len(m['checks']), "checks")
PY
exit $fail
