#!/usr/bin/env python3
"""tools/keep_mutant.py <src dir> <PID> <name> <detected: yes|no> <how detected / note>
copies patch.diff + demonstration + meta.json into /verif/seeded/<name>/ and records what was run."""
import json, os, shutil, sys
src, pid, name, det, note = sys.argv[1:6]
dst = os.path.join("/verif/seeded", name)
os.makedirs(dst, exist_ok=True)
for f in os.listdir(src):
    if f.endswith((".diff", ".go", ".json")):
        shutil.copy(os.path.join(src, f), os.path.join(dst, f))
mp = os.path.join(dst, "meta.json")
m = json.load(open(mp)) if os.path.exists(mp) else {}
m.update({"property": pid,
          "confirmed_by_coordinator": "tools/confirm_mutant.sh: patch applies to /repo HEAD, builds, the 56 existing tests pass with it, the demonstration fails with it and passes without it",
          "detected": det == "yes",
          "detection": note,
          "how_run": "tools/mutant_run.sh %s/patch.diff %s (isolated copy of /verif against a scratch worktree of /repo with the patch applied; quick tier)" % (dst, pid)})
json.dump(m, open(mp, "w"), indent=1)
print("kept", dst)
