#!/bin/bash
# Regression over ALL kept seeded changes with the CURRENT checks, isolated from /repo (tools/mutant_run.sh):
#   tools/seeded_regress.sh [parallel chains, default 6]   -> build/seeded_regress.log ("<id> DETECTED|MISSED <line>")
cd /verif
P=${1:-6}
: > build/seeded_regress.log
chain() {
  pid=$1
  for d in seeded/$pid-m*/; do
    id=$(basename $d)
    out=$(tools/mutant_run.sh $d/patch.diff $pid 2>&1 | tail -2 | tr '\n' ' ')
    if echo "$out" | grep -q "VIOLATION property=$pid"; then v=DETECTED; else v=MISSED; fi
    echo "$id $v $out" >> build/seeded_regress.log
  done
}
export -f chain
printf "%s\n" C01 C02 C03 C04 C05 C06 C07 C08 C09 C10 C11 C12 C13 C14 C15 C16 C17 C18 | xargs -P $P -I{} bash -c 'chain {}'
echo "total $(wc -l < build/seeded_regress.log), missed: $(grep -c MISSED build/seeded_regress.log)"
grep MISSED build/seeded_regress.log
