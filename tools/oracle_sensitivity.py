#!/usr/bin/env python3
"""Self-test of the SPECIFICATION ORACLES: a reference reader that accepts a damaged symbol cannot expose an
encoder that draws one.  For a few symbols of every symbology produced by the unchanged implementation, flip
single modules and ask the property's own oracle (oracle_lines / oracle_verdict of lib/cXX.py, i.e. exactly what
the checks use): every flip must be REJECTED (or be read as a different content).  Prints the flips that are
still accepted.   usage: tools/oracle_sensitivity.py [max flips per symbol, default 400]"""
import importlib, os, random, sys
sys.path.insert(0, "/verif/lib")
from common import *

CASES = {
    "c01": ["qr 0 0 48656c6c6f", "qr 3 1 3132333435", "qr 1 2 48454c4c4f20313233", "qr 2 3 " + ("A" * 60).encode().hex()],
    "c02": ["dm 48656c6c6f", "dm " + ("a" * 24).encode().hex(), "dm " + ("7" * 90).encode().hex()],
    "c03": ["az 23 0 48656c6c6f", "az 33 -2 414243", "az 10 5 " + ("Hello, world. " * 6).encode().hex()],
    "c05": ["c128 1 48656c6c6f3132", "c128 0 313233343536"],
    "c06": ["ean 31323334353637", "ean 353930313233343132333435"],
    "c07": ["c39 1 0 434f44453339", "c39 1 1 48656c6c6f", "c93 1 0 434f44453933", "c93 1 1 48656c6c6f"],
    "c08": ["codabar 4131323334353642", "tof 0 313233343536", "tof 1 313233343536"],
}


def main():
    kmax = int(sys.argv[1]) if len(sys.argv) > 1 else 400
    rng = random.Random(1)
    total = accepted = 0
    cases = dict(CASES)
    cases["c04"] = None
    for name, lines in sorted(cases.items()):
        mod = importlib.import_module(name)
        impl, model = build_impl(mod), build_model(mod)
        if lines is None:      # PDF417 case lines carry the column count the implementation chose: take generated ones
            gen = [l for l in mod.cases("quick", random.Random(3)) if l.startswith("pdf ") and 20 < len(l) < 200]
            lines = gen[:2] + gen[40:42]
        outs = run_lines(impl, lines, 1)
        for line, out in zip(lines, outs):
            if not out.startswith("OK"):
                print(name, "case not accepted:", line, out[:60])
                continue
            head, rows = out.rsplit(" ", 1)
            extra = ""
            if "|" in rows:          # "<rows>|..." variants are not used by these tags
                rows, extra = rows.split("|", 1)
                extra = "|" + extra
            cells = [i for i, ch in enumerate(rows) if ch in "01"]
            pick = cells if len(cells) <= kmax else sorted(rng.sample(cells, kmax))
            muts = []
            for i in pick:
                r = rows[:i] + ("0" if rows[i] == "1" else "1") + rows[i + 1:]
                muts.append(head + " " + r + extra)
            ol = mod.oracle_lines([line] * len(muts), muts)
            idx = [j for j, l in enumerate(ol) if l is not None]
            oo = run_lines(model, [ol[j] for j in idx], NCPU)
            acc = []
            for j, o in zip(idx, oo):
                total += 1
                if mod.oracle_verdict(line, muts[j], o) is None:
                    acc.append(pick[j])
            accepted += len(acc)
            w = rows.index("/") if "/" in rows else len(rows)
            print("%-4s %-40s %5d flips, %3d accepted %s" % (name, line[:40], len(idx), len(acc),
                  [(p % (w + 1), p // (w + 1)) for p in acc[:12]] if acc else ""))
    print("flips judged: %d, still accepted: %d" % (total, accepted))
    print("(known and harmless: the two unused leading modules of a 1-layer compact Aztec symbol - 104 module positions for "
          "17 six-bit words - belong to no codeword; the reference reader ignores them as every reader does)")
    return 0


if __name__ == "__main__":
    sys.exit(main())
