#!/bin/bash
# For every kept seeded change: apply it to /repo itself, run the property's quick check in /verif,
# undo it straight afterwards, and record the verdict in seeded/<id>/meta.json ("official_run").
# Evidence files are restored afterwards (evidence must come from the unchanged tree).
cd /verif
if git -C /repo status --short | grep -v '^??' | grep -q .; then echo "REFUSING: /repo dirty"; exit 2; fi
only=${1:-}
for d in seeded/*/; do
  [ -f "$d/patch.diff" ] || continue
  id=$(basename $d); pid=${id%%-*}
  if [ "$only" = "new" ]; then grep -q official_run "$d/meta.json" && continue
  elif [ -n "$only" ] && [ "$only" != "$id" ]; then continue; fi
  git -C /repo apply "/verif/${d}patch.diff" || { echo "$id PATCH-FAILS"; continue; }
  s=$(date +%s); out=$(./check $pid --tier quick 2>&1); rc=$?; e=$(( $(date +%s) - s ))
  git -C /repo checkout -- .
  line=$(echo "$out" | grep VIOLATION | head -1)
  python3 - "$d/meta.json" "$rc" "$e" "$line" <<'PY'
import json, sys
p, rc, e, line = sys.argv[1], int(sys.argv[2]), int(sys.argv[3]), sys.argv[4]
m = json.load(open(p))
m["official_run"] = {"how": "git -C /repo apply patch.diff; ./check <PID> --tier quick; git -C /repo checkout -- .",
                     "exit": rc, "seconds": e, "violation_line": line,
                     "concrete_input_found": bool(line) and "no-failing-input-found" not in line}
m["detected"] = rc == 1 and bool(line)
json.dump(m, open(p, "w"), indent=1)
PY
  echo "$id rc=$rc ${e}s ${line:0:120}"
done
git checkout -q -- evidence 2>/dev/null
git -C /repo status --short | grep -v '^??'
