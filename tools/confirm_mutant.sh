#!/bin/bash
# tools/confirm_mutant.sh <mutant dir with patch.diff + demo_test.go>  -> prints CONFIRMED / reason
# In a scratch worktree of /repo HEAD: (1) patch applies, builds, existing tests pass;
# (2) the demonstration fails with the patch; (3) it passes without the patch.
set -u
D=$(readlink -f "$1"); W=/tmp/confirm_$$
export GOFLAGS=-mod=mod GOPROXY=off GOSUMDB=off GOTOOLCHAIN=local
git -C /repo worktree add -q --detach "$W" HEAD || exit 2
trap 'git -C /repo worktree remove --force "$W" >/dev/null 2>&1' EXIT
demo=$(ls "$D"/demo*_test.go 2>/dev/null | head -1)
[ -z "$demo" ] && { echo "NO-DEMO"; exit 1; }
pkg=$(grep -m1 '^package ' "$demo" | awk '{print $2}'); pkg=${pkg%_test}
dir=$pkg; [ "$pkg" = "barcode" ] && dir=.
cd "$W" && git apply "$D/patch.diff" || { echo "PATCH-DOES-NOT-APPLY"; exit 1; }
go build ./... >/dev/null 2>&1 || { echo "MUTANT-DOES-NOT-BUILD"; exit 1; }
go test -vet=off -count=1 ./... >/tmp/confirm_tests_$$.log 2>&1 || { echo "EXISTING-TESTS-FAIL-WITH-MUTANT"; tail -5 /tmp/confirm_tests_$$.log; exit 1; }
cp "$demo" "$W/$dir/zz_demo_test.go"
if go test -vet=off -count=1 -run 'Demo' ./$dir >/tmp/confirm_demo_$$.log 2>&1; then echo "DEMO-PASSES-WITH-MUTANT"; exit 1; fi
rm "$W/$dir/zz_demo_test.go"; git checkout -q -- . ; cp "$demo" "$W/$dir/zz_demo_test.go"
if go test -vet=off -count=1 -run 'Demo' ./$dir >/tmp/confirm_demo2_$$.log 2>&1; then echo "CONFIRMED"; else echo "DEMO-FAILS-WITHOUT-MUTANT"; tail -5 /tmp/confirm_demo2_$$.log; exit 1; fi
rm -f /tmp/confirm_*_$$.log
