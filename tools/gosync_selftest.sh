#!/bin/bash
# Self-test of the gosync may-write analysis (sync_globals_mutated / sync_globals_method_called).
# Every case runs in a scratch worktree /tmp/gs_case of /repo's HEAD which is removed afterwards.
#   1. unchanged library: all definitions identical to the OLD (syntactic) analyser
#   2. behaviour-preserving refactorings benign/*/patch.diff: no alarm
#   3. real mutations (inline edits): reported
#   4. seeded C15/C16 changes: old vs new facts, nothing the old analyser flagged becomes invisible
# usage: tools/gosync_selftest.sh [old gosync binary]   (default build/gosync_old)
export GOFLAGS=-mod=mod GOPROXY=off GOSUMDB=off GOTOOLCHAIN=local
DEV=$(cd "$(dirname "$0")/.." && pwd)
NEW=$DEV/build/gosync
OLD=${1:-$DEV/build/gosync_old}
CASE=/tmp/gs_case
OUT=$(mktemp -d /tmp/gs_selftest.XXXXXX)
FAILS=0

(cd "$DEV/go/gosync" && go build -o "$NEW" .) || { echo "FAIL build"; exit 1; }
if [ ! -x "$OLD" ]; then
	# build the old (purely syntactic) analyser from the history of this repository
	T=$(mktemp -d /tmp/gs_old.XXXXXX); git -C "$DEV" show 3ae5065:go/gosync/main.go > $T/main.go; cp "$DEV/go/gosync/go.mod" $T/
	(cd $T && go build -o "$OLD" .) || { echo "cannot build the old analyser"; exit 1; }
	rm -rf $T
fi

cleanup() {
	git -C /repo worktree remove --force $CASE >/dev/null 2>&1
	rm -rf $CASE "$OUT"
	git -C /repo worktree prune >/dev/null 2>&1
}
trap cleanup EXIT

fresh() {
	git -C /repo worktree remove --force $CASE >/dev/null 2>&1
	rm -rf $CASE
	git -C /repo worktree add --detach $CASE HEAD >/dev/null 2>&1 || { echo "FAIL cannot create worktree"; exit 1; }
}
# facts <binary> <tag>: runs the analyser in the scratch worktree, output in $OUT/<tag>.v
facts() { (cd $CASE && "$1" "$OUT/$2.v" >"$OUT/$2.log" 2>&1); }
def() { sed -n "s/^Definition $2 : list string := \(.*\)\.$/\1/p" "$OUT/$1.v"; }
builds() { (cd $CASE && go build ./... >"$OUT/build.log" 2>&1); }
result() { # result <PASS|FAIL> <case> <detail>
	[ "$1" = FAIL ] && FAILS=$((FAILS + 1))
	printf '%-4s %-28s %s\n' "$1" "$2" "$3"
}
benign_ok() { # mutated = [] and method_called subset of the two encoders
	[ "$(def $1 sync_globals_mutated)" = "[]" ] || return 1
	def $1 sync_globals_method_called | tr -d '[]" ' | tr ';' '\n' | grep -v '^$' | grep -qv '^\(datamatrix\|qr\)\.ec$' && return 1
	return 0
}

echo "== 1. unchanged library: new output = old output (comment lines excepted)"
fresh
facts "$OLD" old; facts "$NEW" new
if diff <(grep -v '^(\*\|sync_api_slices_appended' "$OUT/old.v") <(grep -v '^(\*\|sync_api_slices_appended' "$OUT/new.v") >"$OUT/d.txt" &&
	[ "$(def new sync_globals_mutated)" = "[]" ] &&
	[ "$(def new sync_globals_method_called)" = '["datamatrix.ec"; "qr.ec"]' ]; then
	result PASS unchanged "mutated=$(def new sync_globals_mutated) method_called=$(def new sync_globals_method_called)"
else
	result FAIL unchanged "$(cat "$OUT/d.txt" | head -5)"
fi

echo "== 2. benign refactorings: mutated=[] and method_called within {datamatrix.ec, qr.ec}"
for pd in $DEV/benign/*/patch.diff; do
	[ -f "$pd" ] || continue
	name=$(basename $(dirname "$pd"))
	fresh
	if ! git -C $CASE apply "$pd" 2>"$OUT/apply.log"; then result FAIL "benign $name" "patch does not apply"; continue; fi
	facts "$OLD" old; facts "$NEW" new
	oldverdict=alarm; benign_ok old && oldverdict=ok
	if benign_ok new; then
		result PASS "benign $name" "(old analyser: $oldverdict)"
	else
		result FAIL "benign $name" "mutated=$(def new sync_globals_mutated) method_called=$(def new sync_globals_method_called) (old analyser: $oldverdict)"
	fi
done

echo "== 3. real mutations"
# expect <case> <reported|clean> <regex over 'mutated | method_called'>
expect() {
	if ! builds; then result FAIL "$1" "edit does not compile: $(head -3 "$OUT/build.log" | tr '\n' ' ')"; return; fi
	facts "$NEW" new
	both="$(def new sync_globals_mutated) | $(def new sync_globals_method_called)"
	if [ "$2" = reported ]; then
		if echo "$both" | grep -q "$3"; then result PASS "$1" "$both"; else result FAIL "$1" "expected $3 in: $both"; fi
	else
		if echo "$both" | grep -q "$3"; then result FAIL "$1" "unexpected $3 in: $both"; else result PASS "$1" "$both"; fi
	fi
}

fresh # 3a write through the pointer returned by findSmallestVersionInfo
sed -i 's|^\tres := new(utils.BitList)$|\tvi.Version = vi.Version\n\tres := new(utils.BitList)|' $CASE/qr/unicode.go
grep -q 'vi.Version = vi.Version' $CASE/qr/unicode.go || echo "  (3a edit not applied)"
expect "3a returned pointer write" reported '"qr\.versionInfos'

fresh # 3a' the pointer is handed to a function that writes through it
sed -i 's|^\tres := new(utils.BitList)$|\tsetVersion(vi)\n\tres := new(utils.BitList)|' $CASE/qr/unicode.go
printf '\nfunc setVersion(v *versionInfo) { v.Version = 3 }\n' >>$CASE/qr/unicode.go
expect "3a' returned ptr to writer" reported '"qr\.versionInfos'

fresh # 3b new package-level variable assigned in Encode
sed -i 's|^func Encode(content string, includeChecksum bool, fullASCIIMode bool) (barcode.BarcodeIntCS, error) {$|var lastLen int\n\n&\n\tlastLen = len(content)|' $CASE/code39/encoder.go
expect "3b global assigned" reported '"code39\.lastLen"'

fresh # 3c pointer-receiver method writing a field, called through the table
printf '\nfunc (s *dmCodeSize) touch() { s.Rows = s.Rows }\n' >>$CASE/datamatrix/codesize.go
sed -i 's|^func Encode(content string) (barcode.Barcode, error) {$|&\n\tcodeSizes[0].touch()|' $CASE/datamatrix/encoder.go
expect "3c writing method via table" reported '"datamatrix\.codeSizes'

fresh # 3d helper writing through a pointer to a new global
sed -i 's|^func Encode(code string) (barcode.BarcodeIntCS, error) {$|var counter int\n\nfunc bump(p *int) { *p++ }\n\n&\n\tbump(\&counter)|' $CASE/ean/encoder.go
expect "3d bump(&counter)" reported '"ean\.counter'

fresh # 3d' the same helper only reading
sed -i 's|^func Encode(code string) (barcode.BarcodeIntCS, error) {$|var counter int\n\nfunc peek(p *int) int { return *p }\n\n&\n\tif peek(\&counter) > 0 {\n\t\treturn nil, nil\n\t}|' $CASE/ean/encoder.go
expect "3d' peek(&counter)" clean 'counter'

fresh # 3e sub-slice of a package-level array handed to a function that assigns elements
cat >>$CASE/utils/runeint.go <<'EOF'

var scratch [64]int

func fill(dst []int, v int) {
	for i := range dst {
		dst[i] = v
	}
}

// Digits is a test function.
func Digits(n int) int {
	fill(scratch[:n], 1)
	return scratch[0]
}
EOF
expect "3e fill(scratch[:n])" reported '"utils\.scratch'

fresh # 3f alias chain
sed -i 's|^\tres := new(utils.BitList)$|\tt := versionInfos\n\te := t[3]\n\te.Level = e.Level\n\tres := new(utils.BitList)|' $CASE/qr/unicode.go
expect "3f alias chain" reported '"qr\.versionInfos'

fresh # 3g (extra) alias stored into a struct field and written through the field elsewhere
cat >>$CASE/datamatrix/codesize.go <<'EOF'

type sizeHolder struct{ s *dmCodeSize }

func hold() *sizeHolder { return &sizeHolder{s: codeSizes[1]} }

func (h *sizeHolder) grow() { h.s.Rows++ }

// Grow is a test function.
func Grow() { hold().grow() }
EOF
expect "3g write through field" reported '"datamatrix\.codeSizes'

fresh # 3h (extra) pure reads through aliases, ranges and returned pointers
cat >>$CASE/qr/unicode.go <<'EOF'

func readOnly(v *versionInfo) int { return int(v.Version) }

// Peek is a test function.
func Peek() int {
	t := versionInfos
	n := 0
	for _, v := range t[1:] {
		n += readOnly(v)
	}
	p := &t[2].Version
	return n + int(*p) + readOnly(findSmallestVersionInfo(L, byteMode, 8))
}
EOF
expect "3h reads only" clean 'versionInfos'

echo "== 4. seeded C15/C16 changes: old vs new facts"
for pd in /verif/seeded/C15-m*/patch.diff /verif/seeded/C16-m*/patch.diff; do
	[ -f "$pd" ] || continue
	name=$(basename "$(dirname "$pd")")
	fresh
	if ! git -C $CASE apply "$pd" 2>"$OUT/apply.log"; then result FAIL "$name" "patch does not apply"; continue; fi
	facts "$OLD" old; facts "$NEW" new
	lost=""
	# every name the old analyser reported (without the (&) marker) must still be reported somewhere
	for n in $( (def old sync_globals_mutated; def old sync_globals_method_called) | tr -d '[] ' | tr ';' '\n' | tr -d '"' | sed 's/(&)$//' | sort -u); do
		(def new sync_globals_mutated; def new sync_globals_method_called) | grep -q "\"$n[\"(]" || lost="$lost $n"
	done
	other=same
	diff <(grep -v '^(\*\|sync_globals_\|sync_api_slices_appended' "$OUT/old.v") <(grep -v '^(\*\|sync_globals_\|sync_api_slices_appended' "$OUT/new.v") >/dev/null || other=DIFFERENT
	detail="old: mut=$(def old sync_globals_mutated) mc=$(def old sync_globals_method_called) | new: mut=$(def new sync_globals_mutated) mc=$(def new sync_globals_method_called) | other facts $other"
	if [ -z "$lost" ] && [ $other = same ]; then result PASS "$name" "$detail"; else result FAIL "$name" "lost:$lost $detail"; fi
done

echo "== $FAILS failing case(s)"
[ $FAILS -eq 0 ]
