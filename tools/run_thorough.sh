#!/bin/bash
# thorough tier of every claimed check, sequentially; log to build/thorough.log
cd /verif
for p in $(python3 -c "import json; print(' '.join(c['property_id'] for c in json.load(open('MANIFEST.json'))['checks']))"); do
  s=$(date +%s); out=$(./check $p --tier thorough 2>&1); rc=$?; e=$(( $(date +%s) - s ))
  echo "$p rc=$rc ${e}s $(echo "$out" | grep -c VIOLATION) violations" >> build/thorough.log
  [ $rc -ne 0 ] && echo "$out" | tail -5 >> build/thorough.log
done
echo DONE >> build/thorough.log
